#!/usr/bin/env python3
"lists (file: function) pairs already touched by seeded changes of a property — used to steer later seeding agents elsewhere"
import glob, sys, re
pid = sys.argv[1]
used = set()
for m in sorted(glob.glob('/verif/seeded/%s-*/patch*.diff' % pid)):
    f = None
    for l in open(m):
        if l.startswith('+++ '):
            f = l.split('emmet/', 1)[-1].strip() if 'emmet/' in l else l[4:].strip()
        if l.startswith('@@'):
            ctx = l.split('@@')[-1].strip()
            mm = re.search(r'(def|class)\s+(\w+)', ctx)
            used.add('%s: %s' % (f, mm.group(2) if mm else ctx[:40]))
print('; '.join(sorted(used)))
