#!/bin/bash
# tools/sweep.sh <tier> <seed>...   runs every registered check (or those named in $IDS) at the given seeds; prints one line per run
tier=$1; shift
cd "$(dirname "$0")/.."
for seed in "$@"; do
  for id in ${IDS:-C01 C02 C03 C04 C05 C06 C07 C08 C09 C10 C11 C12 C13 C14 C15 C16 C17 C18 C19 C20}; do
    out=$(VERIF_SEED=$seed ./check $id $tier 2>&1); rc=$?
    echo "rc=$rc $(echo "$out" | grep -E "^$id $tier" | tail -1)"
    if [ $rc -ne 0 ]; then echo "$out" | grep -E "bucket=|case=|detail=|VIOLATION|HARNESS" | head -12; fi
  done
done
