#!/usr/bin/env python3
"Regenerates MANIFEST.json from the table below and validates it against the schema (if jsonschema is importable)."
import json, os, sys
VERIF = os.path.dirname(os.path.dirname(os.path.abspath(__file__)))

# id -> (technique, level text, level note, design ref)
CHECKS = {}


# properties whose structured strategy also runs under libFuzzer in the thorough tier (vlib/fuzz.py, guided mode)
GUIDED_IDS = {'C01', 'C02', 'C03', 'C04', 'C05', 'C09', 'C10', 'C12', 'C15'}


def reg(pid, technique, text, note, ref=None):
    CHECKS[pid] = (technique, text, note, ref or 'DESIGN.md section 3, ' + pid)


reg('C18', 'exhaustive string enumeration + Hypothesis/mutation fuzzing + coverage-guided fuzzing (atheris/libFuzzer, thorough tier) against a span-tiling invariant',
    'Every string over the markup (27 symbols) and stylesheet (23 symbols) abbreviation alphabets up to length 4 (quick) / 5 '
    '(thorough) is tokenized in all three modes and the spans are checked to tile the input; random strings ≤ 60, all prefixes and '
    '≤3-edit mutants of valid abbreviations extend beyond the bound; the thorough tier adds 16 coverage-guided campaigns (bytes → language + string, half from an empty corpus) with the same oracle inside the target. Exhaustive within the bound, sampled beyond it.',
    'Trusts the Token.start/.end attributes as the span interface; absence of violations beyond the enumerated length is not shown.')

reg('C07', 'exhaustive string enumeration × fixed configs + Hypothesis (strings, fragments, random option sets) + mutation/prefix fuzzing + coverage-guided fuzzing (atheris, thorough tier); oracle = exception-type whitelist with error-position bound',
    'Every string of length ≤ 3 (quick) / ≤ 4 (thorough) over the 27-symbol markup alphabet × 8 configurations and over the 23-symbol stylesheet '
    'alphabet × 5 configurations is expanded; beyond the bound Hypothesis strings/fragment sequences with random option sets, all prefixes and '
    '≤3-edit mutants of valid abbreviations. Anything escaping other than the two parse errors (with pos in range) is bucketed by root cause.',
    'Termination is decided by a 20 s CPU-time watchdog per call (normal cost < 10 ms); repeat counts are bounded by the generator. Malformed user snippets are outside the domain.')

reg('C19', 'exhaustive token-sequence/string enumeration + Hypothesis expression trees + coverage-guided fuzzing (atheris, thorough tier); differential against an exact Fraction evaluator with a rigorous float error bound; validity predicate for extract()',
    'evaluate(): every sequence of ≤ 5 (quick) / ≤ 7 (thorough) tokens over 4 numbers, 5 operators and parentheses, every string ≤ 5/6 over a 12-character '
    'alphabet, and random expression trees are compared with a reference parser that implements the stated precedence and evaluates exactly; '
    'extract(): every string ≤ 5/6 over 8 characters × every position × 3 option sets is checked against the range/charset/balance/end predicate.',
    'Cases where floor() lies within the float error bound of a discontinuity and unparenthesised chains mixing \\ with * or / are skipped (counted in evidence). '
    'Which malformed texts must raise is asserted for foreign characters, a trailing binary operator, parentheses unbalanced either way and a decimal point without digits; '
    'parenthesis-heavy malformed texts are enumerated separately (every sequence of ≤ 5/7 pieces over (1) () ( ) 2 + - *).')

reg('C20', 'exhaustive enumeration of the layer-presence lattice against a reference precedence order; metamorphic option-effect table through expand(); snapshot comparison for immutability',
    'The complete 2^6 lattice of defining layers × 3 kinds × 23 (type, syntax) pairs (all known syntaxes, xhtml, unknown names) is enumerated in the quick '
    'tier; the winner is checked on the resolved Config and through expand output, all other keys against a baseline, and deep snapshots of every built-in '
    'table and caller dictionary are compared after each case. Natural keys of the shipped tables × 2^3 caller layers add the un-injected view; 41 options are observed through expand() under all 3^3 assignments of {absent, v1, v2} to the three caller layers (with and without a wrap text): the two values must be distinguishable and the most specific layer must win. Exhaustive for the stated finite domain.',
    'Built-in layers are exercised by swapping deep copies of DEFAULT_CONFIG/SYNTAX_CONFIG into emmet.config for one case (restored in finally); `type` is always explicit.')

reg('C16', 'exhaustive string × position enumeration (documents, attribute fragments, script/style open-tag fragments) + Hypothesis token strings + mutation/truncation fuzzing of valid documents + coverage-guided fuzzing (atheris, thorough tier); oracle = totality and range well-formedness invariants',
    'Every string of length ≤ 4 (quick) / ≤ 5 (thorough) over a 17-symbol HTML and a 19-symbol CSS alphabet (plus every attribute fragment ≤ 5/6 over 12 symbols incl. the Angular markers) is fed to scan, attributes, split_value, match, '
    'balanced_outward and balanced_inward at every position −1..len+1; random token strings, ≤3-edit mutants and all truncations of valid documents go beyond the bound. '
    'Checked: no exception, ranges inside the text, tag-shape/order of scanned tags, match == outward[0], strict nesting of outward entries, nesting of inward entries.',
    'Non-termination would show as a CPU-time watchdog expiry (20 s); absence of violations beyond the enumerated length is sampled, not shown.')

reg('C01', 'exhaustive operator-skeleton enumeration + Hypothesis grammar-directed scripts; differential against a reference interpreter/renderer derived from the same script',
    'Every operator skeleton (> + ^ ^^, groups nested ≤ 2, optional *2 on every element/group) with ≤ 3 elements (quick) / ≤ 4 elements (thorough, ≈ 4.1·10^6 scripts) '
    'is expanded and compared by exact string equality (format off) and white-space-insensitive equality (format on) with the reference denotation; '
    'Hypothesis scripts up to ~40 items add structural names, implicit names under every parent kind, ^^^, self-closing marks and text, across 5 self-closing-style/syntax configurations.',
    'The generator never writes `>` after a group, a text-only item or a self-closed element, and never uses snippet keys as names; beyond the enumerated skeleton size the space is sampled.')

reg('C02', 'exhaustive enumeration of shape × placement × N × width × numbering form + Hypothesis scripts; differential against a reference unroll/counter/maxRepeat-budget model',
    'All combinations of 7 nesting shapes, 7 counter placements, N ≤ 6 (12), width ≤ 3 (4) and 10 (14) numbering forms, and maxRepeat 1..30 on 9 nested/sequential/grouped repeater scripts are '
    'expanded and compared by exact string equality with the reference; Hypothesis scripts put counters into every value position below groups nested ≤ 3 with N ≤ 12, with and without maxRepeat.',
    '`*0`, maxRepeat=0, `$@^` and reverse numbering under a truncating maxRepeat are outside the statement and not generated; names that are snippet keys are skipped.')

reg('C03', 'exhaustive mention-sequence enumeration + Hypothesis elements/option sets; differential against a reference attribute-merge/quoting model',
    'Every sequence of ≤ 3 (quick) / ≤ 4 (thorough) mentions over a 12-mention pool × reverseAttributes on/off is expanded and compared exactly with the reference model of the statement; '
    'Hypothesis draws 0–6 mentions per element with replacement from a 6-name pool in every written form, over syntaxes html/xml/jsx/vue and the attribute-related output options.',
    'Mixing {expression} and non-expression values for one name, `$`/`\\`/`${` in values and the `..class` multiple form are outside the generated domain.')

reg('C04', 'exhaustive short-text enumeration + Hypothesis text atoms / wrap-line lists; differential against a reference text-placement model',
    'Every complete text of ≤ 3 (quick) / ≤ 4 (thorough) characters over the markup alphabet is placed in 4 positions and as wrap line; Hypothesis builds texts from plain '
    'punctuation, nested balanced braces, escapes of every character, counters and placeholders, and wrap cases with an implicit repeater at depth 0–3 (element or group), '
    '0–2 placeholders in text/attribute values/children, 0–6 lines incl. blank and syntax-looking ones, or none. Output is compared exactly with the reference placement '
    '(multi-line text without repeater: by trimmed line sequence inside the target element).',
    'Raw `$#`/`${` in inline text without model atoms, text starting with `<tag`, line-boundary characters of str.splitlines() and more than one implicit repeater are not generated.')

reg('C05', 'exhaustive colour/number-pair enumeration + Hypothesis value sequences; differential against a reference CSS line model with colour round trip',
    'All 1-, 2-, 3-digit hex colours and a 16^3 grid of 6-digit colours × 5 alpha forms × shortHex on/off, and all ordered pairs of 22 number shapes × signs on a unit-taking and a unit-less key are '
    'expanded; Hypothesis draws 1–3 properties with 1–4 mixed values, `!`, across 6 syntaxes and the unit/alias/shortHex/format/between/after options. Numbers and structure are compared exactly '
    'with the reference line; each printed colour token is parsed back and must denote the written (r,g,b,a), be short only when allowed, and be rgba iff alpha < 1.',
    'The abbreviation text is written with the documented separator rule; 4/5/7+-digit hex, `-0`, `#t` with alpha, > 4 decimals and keywords are not generated.')

reg('C06', 'exhaustive whole-table enumeration (keys × syntaxes × scopes, keywords × case × separator) + Hypothesis user tables; oracle derived from the table text',
    'Every key of the shipped stylesheet table × 6 syntaxes (× 4 scopes for css/stylus) and every dash-free top-level keyword of every property snippet in 4 letter cases × 2 separators are expanded '
    'in the quick tier; expectations (property line with first alternative, raw body, tabstop presence, keyword value, scope hiding) are computed from the table text only. Hypothesis adds user tables '
    'that override shipped keys and add new ones. Exhaustive over the shipped table.',
    '`lg` is resolved by the gradient shortcut and is not combined with scopes or user tables; blank placement inside property values is not compared (blank-insensitive equality).')

reg('C14', 'exhaustive snippet-table enumeration × decoration subsets + Hypothesis user tables with cycles; differential alias vs definition/splice, placement predicates, profiled resolution depth',
    'Every key of the html/xsl/pug tables is expanded alone and (single-element definitions) with decoration subsets and compared with the expansion of its definition / the textual splice, format on and off, '
    'reverseAttributes on and off; decorations must be visible on the result; for multi-element definitions alias classes must land once on every top-level element and children in the deepest last element. '
    'Hypothesis user tables over s1…s6 (self/mutual recursion, repeaters, groups) must terminate under the CPU watchdog without RecursionError and with profiled resolve() nesting ≤ distinct definitions + 1.',
    'Alias == definition is asserted for acyclic tables only; the alias and the splice share the resolver, so common faults are caught by the visibility/placement predicates, not by the differential.')
reg('C12', 'metamorphic comparison of two option sets through an independent output lexer + indentation-law predicate; exhaustive option-toggle grid on fixed abbreviations, Hypothesis beyond',
    '46 fixed abbreviations (incl. xsl aliases with content under comments) × all 288 combinations of 7 option toggles against defaults, and Hypothesis scripts × two random option sets over all formatting, comment and self-closing options for html/xml/xsl/jsx/vue/svelte: '
    'normalised token streams must be equal (white space, comment tokens and the self-closing slash are the only permitted differences); under format-on/no formatSkip/xhtml-xml style every line must carry exactly baseIndent + indent × open elements.',
    'Text is compared with white space removed (white space between adjacent text nodes is inter-node white space); comment templates are in comment syntax; one known finding (multi-line text before children) is listed in KNOWN_FINDINGS.txt.')

reg('C15', 'exhaustive operator-skeleton enumeration × 3 syntaxes + Hypothesis scripts; differential against a reference line renderer and tree-from-indentation vs tree-from-HTML',
    'Every operator skeleton with ≤ 3 (quick) / ≤ 4 (thorough) elements in haml, pug and slim, and Hypothesis scripts (ids, classes, valued/empty/boolean attributes, single- and multi-line text, self-closing marks, '
    'repeaters, groups, depth ≤ 8) × indent/newline/baseIndent variants are compared by exact string equality with the reference rendering of the denoted tree; additionally the name tree recovered from the '
    'indentation must equal the tree an independent lexer recovers from the HTML output of the same abbreviation.',
    'ids are written before classes; text-only items are excluded as in the quantifier; attribute values are single-line.')

reg('C13', 'recording callbacks checked against the final string (invariant over every invocation) + reference tabstop-numbering model + exhaustive alias-table sweep with an independent lexer',
    'Every output.field/output.text invocation of every run (Hypothesis abbreviations with explicit fields, aliases, wrap text; 9 markup syntaxes and 5 stylesheet syntaxes; LF/CRLF/CR, indent, baseIndent; four callback '
    'flavours incl. length-changing ones) must report the offset/line/column at which its return value really lies in the result. Tabstop numbering is compared exactly with a reference renderer (marking callback) for '
    'html-family syntaxes and as index sequence for haml/pug/slim; every key of the html/xsl tables is swept for colliding index ranges.',
    'Callbacks do not return line breaks and leave newline/baseIndent strings unchanged; elements whose text has explicit fields have no children.')

reg('C09', 'Hypothesis document trees with generator-recorded ground truth × every position; oracle = lookup in the record (exact ranges)',
    'Random well-formed HTML/XML documents (paired, void, self-closed, special elements, same-name nesting, all attribute forms incl. `>` in values and Angular/React names, comments, CDATA, PIs with quoted `?>`, '
    'markup-like script/style bodies, script with non-special type) are written by a builder that records every range; match, balanced_outward and balanced_inward are compared at every position 0..len with the record '
    '(≈ 2·10^5 positions quick, ≈ 10^7 thorough), attribute offsets included.',
    'balanced_inward is two-valued exactly on element boundaries (the statement says "at the position"); documents are well formed by construction.')

reg('C10', 'Hypothesis stylesheet trees with generator-recorded ground truth × every position; oracle = lookup in the record (exact ranges)',
    'Random stylesheets (rules nested ≤ 4, several top-level rules and top-level variable/custom-property declarations, pseudo selectors, attribute selectors and strings with delimiters, at-rules with parenthesised '
    'conditions, comments with delimiters at every legal place, url()/nested parentheses with `;` and `:`, empty values) are written by a builder that records every range; match, balanced_outward and balanced_inward are '
    'compared at every position with the record (≈ 10^5 positions quick, ≈ 5·10^6 thorough).',
    'match/inward are two-valued between a value end and its `;` and on recorded offsets (both readings of "contains"); declarations are `;`-terminated as in the quantifier; braces are generated inside strings/comments only.')

reg('C17', 'Hypothesis HTML and CSS document trees with generator-recorded ground truth × every position; oracle = lookup in the record',
    'The C09/C10 generators (CSS variant with body-end-terminated last declarations, empty values, stray semicolons, nested rules between declarations) feed get_open_tag, select_item_html (next/previous), '
    'get_css_section(properties=True) and select_item_css (next/previous) at every position; tag/attribute/class-token ranges, section ranges, every property\'s name/value/token/before/after offsets and the '
    'selected item models are compared exactly with the record (select_item_css inside an item: validity of ranges).',
    'Boundary positions of sections are two-valued; for a declaration terminated by `}` select_item_css may end the full range at the value end, the brace or after it; values have no embedded comments.')

reg('C11', 'exhaustive line × caret enumeration + Hypothesis lines + coverage-guided fuzzing (atheris, thorough tier) for the consistency predicate; generated abbreviation × context embedding (round trip)',
    'Every line of length ≤ 4 (quick) / ≤ 5 (thorough) over a 16-symbol alphabet × every caret −2..len+2 × 4 option sets, and Hypothesis lines ≤ 80 × type × lookAhead × 5 prefixes are checked against the consistency '
    'predicate; valid abbreviations (serialised G1 scripts with attribute sets, texts, groups, repeaters; G5 stylesheet abbreviations) are embedded after 21 left contexts (blanks, words, complete tags with quoted/unquoted '
    'attributes) and before 6 right contexts or with the caret before their auto-closed tail, and extract must return exactly the embedded abbreviation.',
    'Payloads keep brackets balanced as the backward scanner requires; the abbreviation is first confirmed to expand (723 of ~9000 generated ones are skipped, counted in evidence).')

reg('C08', 'history-based testing: generated call histories (Hypothesis lists of steps = stateful model) + exhaustive ordered pairs; differential against a freshly imported interpreter state, snapshot invariants, instance/container counting',
    'Histories of 3–25 expand calls over caller-owned config dicts, persistent Config objects and shared cache dicts — succeeding and failing (parser errors, user snippets that do not parse), BEM, wrap text, stylesheet calls with differing '
    'units/snippet tables, and edits of the caller\'s own dict between calls — are executed step by step; every result is compared with the result of the same call in a freshly imported emmet (modules purged from sys.modules), every '
    'caller-owned dict with its pristine recipe after every step, and after the history the live emmet objects and module-level/default-argument container sizes with their state before it. All ordered pairs of 42 markup and 50 stylesheet steps are enumerated.',
    'Fresh state = re-import of the package in the same process (module-level state, defaults, caches new); leak detection sees emmet-defined instances and containers, not interned strings; lorem is excluded.')

NOT_APPLICABLE = [
]

PENDING_REASON = 'check not built yet in this round (planned in DESIGN.md section 3); not claimed until it runs quiet and catches its mutants'


def main():
    props = [json.loads(l) for l in open(os.path.join(VERIF, 'properties.jsonl'))]
    checks = []
    na = list(NOT_APPLICABLE)
    for p in props:
        pid = p['id']
        if pid not in CHECKS:
            if not any(x['property_id'] == pid for x in na):
                na.append({'property_id': pid, 'reason': PENDING_REASON})
            continue
        tech, text, note, ref = CHECKS[pid]
        if pid in GUIDED_IDS:
            tech += '; thorough tier: the same Hypothesis strategy driven by libFuzzer coverage feedback (atheris, guided mode)'
        checks.append({
            'property_id': pid,
            'quick_cmd': './check %s quick' % pid,
            'thorough_cmd': './check %s thorough' % pid,
            'evidence_file': 'evidence/%s.json' % pid,
            'replay_cmd_template': './check %s --replay {path}' % pid,
            'engine': 'pbt-runner',
            'level_claimed': {'category': 'exploration', 'text': text, 'design_ref': ref},
            'level_note': note,
            'technique': tech,
        })
    m = {
        'version': 1,
        'setup_cmd': './setup.sh',
        'hooks': {
            'guard': 'EMMETIO_PY_EMMET_VERIF',
            'enable': 'no hooks are needed: every observation is made from outside (return values, exceptions, callback '
                      'arguments, gc/module introspection); checks import emmet from /repo\'s working tree',
            'baseline_off_cmd': 'cd /repo && /venv/bin/python -m pytest -q -p no:cacheprovider',
            'source_commits': [],
            'add_only': True,
        },
        'engines': [{
            'name': 'pbt-runner', 'path': 'run.py',
            'serves_properties': [c['property_id'] for c in checks],
            'kind_free_text': 'property-based testing: exhaustive small-scope enumeration, Hypothesis strategies and stateful machines, '
                              'mutation fuzzing, coverage-guided fuzzing (atheris/libFuzzer on raw bytes and on Hypothesis choice sequences); explicit oracles (reference models, ground-truth generators, round trips, metamorphic '
                              'relations); collect-bucket-shrink-replay failure handling',
        }],
        'checks': checks,
        'not_applicable': na,
        'notes': 'Run ./check <ID> quick|thorough from /verif. VERIF_SEED selects the pseudo-random stream. KNOWN_FINDINGS.txt lists '
                 'repaired (fixed:) and recorded (known:) defects. ./check --selftest <ID> runs the sensitivity mutants.',
    }
    out = os.path.join(VERIF, 'MANIFEST.json')
    json.dump(m, open(out, 'w'), indent=1)
    try:
        import jsonschema
        jsonschema.validate(m, json.load(open('/root/.vp/MANIFEST.schema.json')))
        print('MANIFEST.json valid: %d checks, %d not claimed' % (len(checks), len(na)))
    except ImportError:
        print('MANIFEST.json written (jsonschema not importable here): %d checks' % len(checks))


if __name__ == '__main__':
    main()
