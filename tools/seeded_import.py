#!/usr/bin/env python3
"""
tools/seeded_import.py <ID> <k> [name]
Imports seeded change k produced by an independent sub-agent in /tmp/wt-<ID>/SEEDED/ after confirming, in a scratch copy of /repo:
  * the patch applies to /repo HEAD, * the repository's own tests still pass with it, * the demonstration exits 1 with it and 0 without it.
Then stores /verif/seeded/<ID>-<k>/{patch.diff, demo.py, meta.json} and runs the property's quick check against the patched copy.
"""
import os, sys, json, shutil, subprocess, tempfile, time

VERIF = os.path.dirname(os.path.dirname(os.path.abspath(__file__)))


def sh(cmd, cwd=None, env=None):
    r = subprocess.run(cmd, shell=True, cwd=cwd, env=env, capture_output=True, text=True)
    return r.returncode, (r.stdout + r.stderr)


def main():
    pid, k = sys.argv[1].upper(), sys.argv[2]
    src = '/tmp/wt-%s/SEEDED' % pid
    patch = os.path.join(src, 'patch%s.diff' % k)
    demo = os.path.join(src, 'demo%s.py' % k)
    note = os.path.join(src, 'note%s.txt' % k)
    # next free index for this property (a second batch for the same property gets <ID>-3, <ID>-4, …)
    idx = 1
    while os.path.exists(os.path.join(VERIF, 'seeded', '%s-%d' % (pid, idx))):
        idx += 1
    if '--overwrite' in sys.argv:
        idx = int(k)
    dest = os.path.join(VERIF, 'seeded', '%s-%d' % (pid, idx))
    tmp = tempfile.mkdtemp(prefix='vseed-', dir='/tmp')
    ran = []
    try:
        repo = os.path.join(tmp, 'repo')
        shutil.copytree('/repo', repo, ignore=shutil.ignore_patterns('.git', '__pycache__', '*.pyc'))
        os.makedirs(os.path.join(repo, 'SEEDED'))
        shutil.copy(demo, os.path.join(repo, 'SEEDED', 'demo%s.py' % k))
        env = dict(os.environ, PYTHONDONTWRITEBYTECODE='1')
        rc0, out0 = sh('/venv/bin/python SEEDED/demo%s.py' % k, repo, env)
        ran.append('pristine: demo exit %d' % rc0)
        rc, out = sh('patch -p1 -s --no-backup-if-mismatch -i %s' % patch, repo)
        ran.append('patch -p1 applies: %s' % ('yes' if rc == 0 else 'NO ' + out[-300:]))
        if rc != 0:
            print('\n'.join(ran)); return 1
        rct, outt = sh('/venv/bin/python -m pytest -q -p no:cacheprovider 2>&1 | tail -1', repo, env)
        ran.append('patched: pytest -> %s' % outt.strip())
        rc1, out1 = sh('/venv/bin/python SEEDED/demo%s.py' % k, repo, env)
        ran.append('patched: demo exit %d' % rc1)
        ok = rc0 == 0 and rc1 == 1 and '141 passed' in outt
        print('\n'.join(ran))
        if not ok:
            print('NOT CONFIRMED; not imported')
            return 1
        os.makedirs(dest, exist_ok=True)
        shutil.copy(patch, os.path.join(dest, 'patch.diff'))
        shutil.copy(demo, os.path.join(dest, 'demo.py'))
        meta = {'property': pid, 'source': 'independent sub-agent given only the property text and a scratch worktree',
                'needs_to_manifest': open(note).read().strip() if os.path.exists(note) else '',
                'confirmed': ran, 'demo_output_patched': out1[-1500:], 'demo_usage': 'cd <repo copy> && mkdir -p SEEDED && cp demo.py SEEDED/demo%s.py && /venv/bin/python SEEDED/demo%s.py' % (k, k)}
        # run the check against the patched copy
        t0 = time.time()
        c = subprocess.run([os.path.join(VERIF, 'check'), pid, 'quick'], cwd=VERIF, env=dict(os.environ, VERIF_REPO=repo, VERIF_MAX_BUCKETS='3'),
                           capture_output=True, text=True)
        viol = [l for l in c.stdout.splitlines() if l.startswith('VIOLATION ')]
        buckets = [l.strip() for l in c.stdout.splitlines() if l.strip().startswith('bucket=')]
        meta['check_quick'] = {'exit': c.returncode, 'violation_lines': len(viol), 'buckets': buckets[:4], 'wall_s': round(time.time() - t0, 1)}
        meta['caught_by_quick'] = bool(c.returncode == 1 and viol)
        json.dump(meta, open(os.path.join(dest, 'meta.json'), 'w'), indent=1)
        print('check %s quick on patched copy: exit %d, %s' % (pid, c.returncode, buckets[:3] or c.stdout.strip().splitlines()[-1:]))
        if c.returncode not in (0, 1):
            print(c.stdout[-1500:], c.stderr[-1500:])
        return 0
    finally:
        shutil.rmtree(tmp, ignore_errors=True)


if __name__ == '__main__':
    # evidence files must not be clobbered by runs against patched copies
    pid = sys.argv[1].upper()
    ev = os.path.join(VERIF, 'evidence', pid + '.json')
    keep = open(ev, 'rb').read() if os.path.exists(ev) else None
    try:
        rc = main()
    finally:
        if keep is not None:
            open(ev, 'wb').write(keep)
    sys.exit(rc)
