#!/usr/bin/env python3
"tools/seeded_note.py <ID-k> <bucket> <text>: records in seeded/<ID-k>/meta.json that the change was missed at first and is caught after strengthening"
import sys, json, os
d = os.path.join(os.path.dirname(os.path.dirname(os.path.abspath(__file__))), 'seeded', sys.argv[1], 'meta.json')
m = json.load(open(d))
m['history'] = sys.argv[3]
m['caught_after_strengthening'] = {'bucket': sys.argv[2]}
json.dump(m, open(d, 'w'), indent=1)
