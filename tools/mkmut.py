#!/usr/bin/env python3
"""
Builds sensitivity mutants as unified diffs against /repo's working tree.
usage (python): from tools.mkmut import mut; mut('C18', 'name', 'emmet/x.py', 'old text', 'new text'[, more (file, old, new) triples])
"""
import difflib, os, sys
VERIF = os.path.dirname(os.path.dirname(os.path.abspath(__file__)))


def mut(pid, name, *edits, count=1):
    if len(edits) % 3:
        raise SystemExit('edits must be (file, old, new) triples')
    out = []
    by_file = {}
    for i in range(0, len(edits), 3):
        f, old, new = edits[i:i + 3]
        src = by_file.get(f)
        if src is None:
            src = open(os.path.join('/repo', f), encoding='utf-8').read()
            by_file.setdefault(f + '::orig', src)
        if src.count(old) != count:
            raise SystemExit('%s/%s: %r occurs %d times in %s (expected %d)' % (pid, name, old, src.count(old), f, count))
        by_file[f] = src.replace(old, new)
    for f in [k for k in by_file if not k.endswith('::orig')]:
        a = by_file[f + '::orig'].splitlines(keepends=True)
        b = by_file[f].splitlines(keepends=True)
        out += list(difflib.unified_diff(a, b, 'a/' + f, 'b/' + f, n=3))
    d = os.path.join(VERIF, 'selftest', pid)
    os.makedirs(d, exist_ok=True)
    text = ''.join(l if l.endswith('\n') else l + '\n\\ No newline at end of file\n' for l in out)
    open(os.path.join(d, name + '.diff'), 'w', encoding='utf-8').write(text)
    print('wrote selftest/%s/%s.diff (%d lines)' % (pid, name, len(out)))
