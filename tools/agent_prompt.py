"prints the prompt given to an independent seeding sub-agent for one property (only the property text + rules; nothing from /verif)"
import sys
pid = sys.argv[1]
import json, os
prop = None
for l in open(os.path.join(os.path.dirname(os.path.dirname(os.path.abspath(__file__))), 'properties.jsonl')):
    p = json.loads(l)
    if p['id'] == pid:
        prop = "Property %s — %s\n\nStatement: %s\n\nQuantified over: %s\n\nCode it is anchored in: %s\nMechanisms: %s\n" % (
            p['id'], p['title'], p['statement'], p['quantifier']['text'], ', '.join(p['anchors']['files']),
            '; '.join('%s (%s)' % (m['name'], m['where']) for m in p['anchors']['mechanism']))
print(f"""You are helping evaluate a test-adequacy experiment on the Python library emmetio/py-emmet (a port of Emmet: expands HTML/CSS abbreviations, plus HTML/CSS matchers). Your own private git worktree of the library is at /tmp/wt-{pid} (work ONLY there; never touch /repo or /verif, never read anything under /verif). Python: /venv/bin/python. The library's own test suite runs with: cd /tmp/wt-{pid} && /venv/bin/python -m pytest -q -p no:cacheprovider   (141 tests, all pass now).

Here is a semantic property the library is supposed to satisfy:

{prop}

TASK: produce TWO independent, realistic source changes ("seeded defects") to the library under /tmp/wt-{pid}/emmet/ such that each one
  (1) BREAKS the property above for some inputs,
  (2) still imports fine and still passes ALL 141 existing tests unchanged (do not edit tests),
  (3) is subtle: it must need something specific to manifest — an unusual input shape, a particular combination of features/options, a multi-step sequence of calls, a boundary value, or two cooperating code sites that each look fine alone — NOT something that ordinary use (e.g. the README examples or the simplest abbreviation) would expose at once. Think of the kind of regression a plausible refactoring or "optimisation" could introduce. Small diffs (1–15 lines) are best. Do not introduce syntax errors, do not add randomness or timing dependence, do not key the defect on magic strings that no generator could plausibly produce (e.g. a specific 20-character name); keying on structural conditions (depth, count, position, option combination, character class) is good.
  The two changes must have different root causes in different functions (ideally different files among those the property is anchored in).

For each change k in (1, 2) write into /tmp/wt-{pid}/SEEDED/ :
  - patch{{k}}.diff : `git diff` of ONLY that change against the pristine worktree HEAD (apply it with `git apply`), containing only files under emmet/
  - demo{{k}}.py   : a small standalone program (run as: cd /tmp/wt-{pid} && /venv/bin/python SEEDED/demo{{k}}.py) that imports emmet from the current directory (sys.path.insert(0, '.')), exercises the property on one or a few concrete inputs, and exits 0 with the pristine code but exits 1 (printing what went wrong: input, expected, observed) with the change applied. The expected values in the demo must follow from the property statement, not from whatever the pristine code happens to do.
  - note{{k}}.txt  : 3–6 lines: which clause of the property it breaks, what exactly is needed for it to manifest, and why the existing tests do not notice.

Procedure you must follow and verify yourself: for each change: apply it, run the full test suite (must be 141 passed), run the demo (must exit 1), then revert (`git checkout -- emmet`), run the demo again (must exit 0). Leave the worktree with the pristine code checked out at the end (git status must show only the untracked SEEDED/ directory). Report in your final message, for each change: the diff, the demo's failing output, and confirmation of the four verification steps. If you cannot make one of them work, say so plainly rather than submitting something unverified.""")
