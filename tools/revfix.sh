#!/bin/bash
# tools/revfix.sh <commit> <ID> <name>: store the reverse of a fix commit as a sensitivity mutant
set -e
mkdir -p /verif/selftest/$2
git -C /repo diff "$1" "$1^" > /verif/selftest/$2/reintroduce-$3.diff
echo "selftest/$2/reintroduce-$3.diff"
