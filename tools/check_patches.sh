#!/bin/bash
# reports every sensitivity diff (hand-made or seeded) that no longer applies to /repo's working tree
cd /repo
bad=0
for f in /verif/selftest/*/*.diff /verif/seeded/*/patch.diff; do
  if ! patch -p1 -s --dry-run -i "$f" >/dev/null 2>&1; then echo "DOES NOT APPLY: $f"; bad=$((bad+1)); fi
done
echo "$bad stale diff(s)"
