"C05 — stylesheet abbreviations resolve numbers, units, colors and !important"
import re, itertools
from fractions import Fraction
import os
from hypothesis import strategies as st
from vlib import core, css_model as C
from vlib.core import guard
from emmet import expand

PROP_ID = 'C05'
RULE = ("case = (1–3 `+`-joined properties, each an exact snippet key with 1–4 values and optional `!`, config). Values are data: numbers (sign, "
        "written shape 0 / 1–12 digits / .5 / 1. / 1.25 / 0.0 / leading zeros, ≤ 4 decimals; unit form none / alias p e x r / explicit px em rem % ex vh pt / "
        "custom alias) and colours (# + 1/2/3/6 hex digits in both cases, #t, alpha .N ≤ 8 digits or `.`). The abbreviation text is written with the "
        "documented separator rule (dash after a unit-less number or colour separates, `--n` is then negative; after an explicit unit the next value "
        "follows directly and `-n` is negative). Exhaustive: all 1-, 2-, 3-digit hex colours and a 16-values-per-channel 6-digit grid × 5 alpha forms × "
        "shortHex on/off; all ordered pairs of 22 number shapes × 2 key kinds. Hypothesis: random sequences × syntaxes css/scss/sass/less/sss/stylus × "
        "intUnit/floatUnit/unitAliases/shortHex/format/between/after options. Oracle: reference line `<property><between><values joined by ' '>"
        "[ !important]<after>` with numbers as minimal decimals + unit rule; colours by round trip (printed token parsed back denotes the same r,g,b,a; "
        "short form only when allowed; rgba iff alpha < 1). Non-trivial: ≥ 2 values, or a colour with a channel < 0x10, or a negative after a unit-less value.")
ASSUME = ["keys are exact keys of property snippets in the shipped table (read from the table text); keywords are C06's business",
          "4/5/7+-digit hex colours, `-0`, `#t` with alpha and numbers with > 4 decimals are not generated (undocumented padding/rounding)"]

TABLE = C.table_properties()
UNIT_KEYS = ['m', 'p', 'w', 'h', 't', 'l', 'r', 'b', 'mt', 'pl', 'fz', 'bdw', 'bd', 'mah']
UNITLESS_KEYS = ['z', 'lh', 'op', 'fw', 'zom', 'fx', 'fxg', 'fxsh']
COLOR_KEYS = ['c', 'bg', 'bgc', 'bdc']
COL_RX = r'(transparent|#[0-9a-fA-F]+|rgba?\([^)]*\))'


def check_css(case, rec, distinct=False):
    props, cfg = case['props'], case['cfg']
    for p in props:
        if p['key'] not in TABLE:
            rec.skip('key-not-in-table')
            return
    text = C.ser(props)
    o = C.options(cfg)
    nt = False
    for p in props:
        vs = p['vals']
        if len(vs) >= 2:
            nt = True
        for i, v in enumerate(vs):
            if v['k'] == 'col' and v['hex'] != 't' and len(v['hex']) == 6 and any(int(v['hex'][j:j + 2], 16) < 16 for j in (0, 2, 4)):
                nt = True
                rec.cls('colour-channel-below-0x10')
            if v['k'] == 'num' and v['neg'] and i and C.kind_after(vs[i - 1]) in ('unitless', 'col'):
                nt = True
                rec.cls('negative-after-unitless')
    if nt:
        rec.nontrivial(distinct=distinct)
    rec.cls('syntax-' + cfg.get('syntax', 'css'))
    c = {'type': 'stylesheet', 'syntax': cfg.get('syntax', 'css'), 'options': dict(cfg.get('options') or {})}
    if cfg.get('scope'):
        # editor scopes that keep property snippets (`@@property`, `@@global`): the same lines as without a scope
        c['context'] = {'name': cfg['scope']}
        rec.cls('scope-' + cfg['scope'])
    rec.evals()
    try:
        with guard():
            got = expand(text, c)
    except Exception as e:
        rec.fail(core.exc_bucket(e), '%r: %s: %s' % (text, type(e).__name__, e))
        return
    # reference with colour tokens as capture groups
    lines = []
    cols = []
    for p in props:
        name = TABLE[p['key']]
        toks = []
        for v in p['vals']:
            if v['k'] == 'num':
                toks.append(re.escape(C.num_text(v, name, o)))
            else:
                toks.append(COL_RX)
                cols.append(v)
        lines.append(re.escape(name + o['stylesheet.between']) + ' '.join(toks) + re.escape((' !important' if p.get('imp') else '') + o['stylesheet.after']))
    rx = re.escape(o['output.newline'] if o['output.format'] else '').join(lines)
    m = re.fullmatch(rx, got)
    exp = C.ref(props, TABLE, cfg)
    if not m:
        kind = 'number-or-structure'
        if got.count('!important') != exp.count('!important'):
            kind = 'important'
        rec.fail('css-mismatch:' + kind, 'abbr %r cfg %r\n expected %r\n got      %r' % (text, cfg, exp, got))
        return
    for v, tok in zip(cols, m.groups()):
        want = C.col_value(v)
        have = C.parse_printed_color(tok.lower())
        if have is None:
            rec.fail('colour-unparsable', 'abbr %r: printed colour %r' % (text, tok))
        elif have != want:
            rec.fail('colour-value-changed', 'abbr %r: written %r denotes %r, printed %r denotes %r' % (text, C.ser_value(v), _c(want), tok, _c(have)))
        else:
            short = re.fullmatch(r'#[0-9a-fA-F]{3}', tok) is not None
            allowed = o['stylesheet.shortHex'] and all(ch % 17 == 0 for ch in want[:3])
            if short and not allowed:
                rec.fail('colour-short-hex-not-allowed', 'abbr %r: printed %r (shortHex=%r)' % (text, tok, o['stylesheet.shortHex']))
            if want[3] != 1 and want != (0, 0, 0, 0) and not tok.startswith('rgba('):
                rec.fail('colour-alpha-not-rgba', 'abbr %r: alpha %s printed as %r' % (text, float(want[3]), tok))
            if want[3] == 1 and not tok.startswith('#'):
                rec.fail('colour-opaque-not-hex', 'abbr %r: printed as %r' % (text, tok))


def _c(t):
    return (t[0], t[1], t[2], float(t[3]))


def check_css_x(case, rec):
    check_css(case, rec, True)


CHECKS = {'css': check_css, 'css-x': check_css_x}

GRID = ['00', '01', '0b', '0f', '10', '11', '1f', '7f', '80', 'a0', 'aa', 'b0', 'e7', 'f0', 'fe', 'ff']
ALPHAS = [None, '.5', '.25', '.0', '.']
HEXD = '0123456789abcdef'


def colour_space():
    for a in HEXD:
        yield a
    for a, b in itertools.product(HEXD, repeat=2):
        yield a + b
    for t in itertools.product(HEXD, repeat=3):
        yield ''.join(t)
    for t in itertools.product(GRID, repeat=3):
        yield ''.join(t)


def shard_colours(ctx, shard, nshards):
    k = 0
    for h in colour_space():
        for al in ALPHAS:
            for short in (True, False):
                k += 1
                if k % nshards != shard:
                    continue
                hh = h.upper() if k % 5 == 0 else h
                key = COLOR_KEYS[k % len(COLOR_KEYS)]
                ctx.rec.run_case(CHECKS, 'css-x', {'props': [{'key': key, 'vals': [{'k': 'col', 'hex': hh, 'alpha': al}], 'imp': k % 11 == 0}],
                                                    'cfg': {'syntax': 'css', 'options': {'stylesheet.shortHex': short}}})


SHAPES = [('0', ''), ('7', ''), ('10', ''), ('123', ''), ('9999', ''), ('.5', ''), ('1.', ''), ('1.25', ''), ('0.0', ''), ('007', ''), ('10', 'p'), ('1.5', 'e'),
          ('3', 'x'), ('2', 'r'), ('10', 'px'), ('.25', 'em'), ('100', '%'), ('4', 'vh'), ('12', 'pt'), ('0', 'px'), ('1.0', ''), ('123456789012', '')]


def shard_pairs(ctx, shard, nshards):
    k = 0
    for (w1, u1), (w2, u2) in itertools.product(SHAPES, repeat=2):
        for n1, n2 in itertools.product([False, True], repeat=2):
            if (n1 and float(w1 if not w1.endswith('.') else w1 + '0') == 0) or (n2 and float(w2 if not w2.endswith('.') else w2 + '0') == 0):
                continue
            for key in ('m', 'lh'):
                k += 1
                if k % nshards != shard:
                    continue
                vals = [{'k': 'num', 'neg': n1, 'w': w1, 'u': u1}, {'k': 'num', 'neg': n2, 'w': w2, 'u': u2}]
                if k % 3 == 0:
                    vals.append({'k': 'col', 'hex': 'e7bc0b', 'alpha': None})
                ctx.rec.run_case(CHECKS, 'css-x', {'props': [{'key': key, 'vals': vals, 'imp': k % 4 == 0, 'colon': k % 5 == 0}], 'cfg': {'syntax': ('css', 'stylus', 'sass')[k % 3], 'options': {}}})


def number_strategy():
    digits = st.text('0123456789', min_size=1, max_size=4)
    w = st.one_of(
        st.integers(0, 9999).map(str), st.integers(0, 10 ** 12).map(str),
        st.builds(lambda a, b: a + '.' + b, digits, digits), digits.map(lambda d: '.' + d), digits.map(lambda d: d + '.'),
        st.sampled_from(['0', '0.0', '00', '1', '1.0', '007', '.5', '1.', '1.25', '10']),
    )
    u = st.sampled_from(['', '', '', 'p', 'e', 'x', 'r', 'px', 'em', 'rem', '%', 'ex', 'vh', 'pt', 'q', 'zz'])
    def mk(neg, w, u):
        zero = float(w + '0' if w.endswith('.') else w) == 0
        return {'k': 'num', 'neg': neg and not zero, 'w': w, 'u': u}
    return st.builds(mk, st.booleans(), w, u)


def colour_strategy():
    hx = st.one_of(st.text(HEXD + 'ABCDEF', min_size=1, max_size=3), st.text(HEXD + 'ABCDEF', min_size=6, max_size=6), st.sampled_from(GRID).flatmap(
        lambda a: st.tuples(st.sampled_from(GRID), st.sampled_from(GRID)).map(lambda t: a + t[0] + t[1])))
    al = st.one_of(st.none(), st.none(), st.just('.'), st.text('0123456789', min_size=1, max_size=8).map(lambda d: '.' + d))
    return st.one_of(st.builds(lambda h, a: {'k': 'col', 'hex': h, 'alpha': a}, hx, al), st.just({'k': 'col', 'hex': 't', 'alpha': None}))


def strategy():
    val = st.one_of(number_strategy(), number_strategy(), colour_strategy())
    prop = st.builds(lambda k, vs, imp, colon: {'key': k, 'vals': vs, 'imp': imp, 'colon': colon},
                     st.sampled_from(UNIT_KEYS + UNITLESS_KEYS + COLOR_KEYS), st.lists(val, min_size=1, max_size=4), st.booleans(), st.sampled_from([False, False, False, True]))
    opts = st.fixed_dictionaries({}, optional={
        'stylesheet.intUnit': st.sampled_from(['px', 'pt', '', 'rem']),
        'stylesheet.floatUnit': st.sampled_from(['em', 'rem', '', 'px']),
        'stylesheet.unitAliases': st.sampled_from([{'e': 'em', 'p': '%', 'x': 'ex', 'r': 'rem'}, {}, {'p': 'pt', 'zz': 'vmax', 'q': 'Q'}, {'e': 'em', 'p': 'percent'}]),
        'stylesheet.shortHex': st.booleans(),
        'output.format': st.booleans(),
        'output.newline': st.sampled_from(['\n', '\r\n']),
        'stylesheet.between': st.sampled_from([': ', ':', ' ', ' = ']),
        'stylesheet.after': st.sampled_from([';', '', ' ;']),
        'stylesheet.unitless': st.sampled_from([C.DEFAULTS['stylesheet.unitless'], [], ['margin', 'z-index']]),
    })
    cfg = st.builds(lambda s, o, sc: dict({'syntax': s, 'options': o}, **({'scope': sc} if sc else {})), st.sampled_from(['css', 'scss', 'sass', 'less', 'sss', 'stylus']), opts,
                    st.sampled_from([None, None, None, '@@property', '@@global']))
    return st.builds(lambda ps, c: {'props': ps, 'cfg': c}, st.lists(prop, min_size=1, max_size=3), cfg)


def shard_random(ctx, shard, nshards, n):
    ctx.run_hypothesis('css', strategy(), n, seed_key=shard)


def run(ctx):
    ctx.run_parallel('shard_colours')
    ctx.exhaustive('all 1-, 2-, 3-digit hex colours + 16^3 grid of 6-digit colours × 5 alpha forms × shortHex on/off')
    ctx.run_parallel('shard_pairs')
    ctx.exhaustive('all ordered pairs of %d number shapes × signs × 2 keys (unit-taking, unit-less)' % len(SHAPES))
    ctx.run_parallel('shard_random', extra=(ctx.pick(250, 6000),))
    if ctx.thorough or os.environ.get('VERIF_FUZZ'):
        ctx.run_atheris('css', ctx.pick(300, 4000), guided=True)


# coverage-guided layer (thorough tier): the Hypothesis strategy under libFuzzer (vlib/fuzz.py, guided mode)
GUIDED = {'css': strategy}
