"C10 — CSS matcher returns the innermost rule or declaration with exact ranges"
import os
from hypothesis import strategies as st
from vlib import core, gen_css as GC
from vlib.core import guard
from emmet.css_matcher import match, balanced_outward, balanced_inward

PROP_ID = 'C10'
RULE = ("case = stylesheet tree as JSON; the builder writes the text and records every rule's selector range and brace offsets and every declaration's name/value "
        "ranges, colon and `;` offsets. Stylesheets: rules nested ≤ 4, several top-level rules and top-level `$var:` / `--custom:` / `@var:` declarations, pseudo "
        "classes/elements, attribute selectors with `{;}` in strings, at-rules with parenthesised conditions containing colons, comments containing `{ } : ;` between any "
        "two items and inside selectors/values, strings with braces/semicolons/escaped quotes, url(), nested parentheses, empty values, `;`-terminated declarations. "
        "EVERY position 0..len. Oracle (ground truth): match = innermost declaration (name → `;`+1, body = value) or rule (selector → `}`+1, body between the braces) "
        "strictly containing pos; balanced_outward = value, declaration, then per enclosing rule its white-space-trimmed content range and full range (adjacent duplicates "
        "and empty ranges collapsed) wherever in the file pos is; balanced_inward = construct at pos followed by its first-child chain. Positions between a value's end and "
        "its `;` and positions equal to a recorded offset are two-valued for match/inward (both readings of 'contains', exact ranges either way); for "
        "balanced_outward only the position on the `;` itself is. "
        "Non-trivial: position in the 2nd or later top-level rule, at nesting ≥ 2, or in a declaration whose value has a string/parenthesis with delimiters.")
ASSUME = ["declarations are `;`-terminated (the quantifier); values contain `:` `;` `{` `}` only inside strings or comments; selectors contain them only inside strings, comments, parentheses or as pseudo-class colons",
          "white space for trimming = blank, tab, LF, CR, NBSP (the library's is_space)"]


def js_rule(n):
    return ('selector', n.start, n.end, n.open + 1, n.close)


def js_decl(n):
    return ('property', n.start, n.end, n.value[0], n.value[1])


def first_child_chain(src, r, acc):
    while r is not None and r.kind == 'rule':
        c = r.children[0] if r.children else None
        if c is None:
            break
        push(acc, (c.start, c.end))
        if c.kind == 'decl':
            push(acc, GC.trimmed(src, c.colon + 1, c.semi))
            break
        push(acc, GC.trimmed(src, c.open + 1, c.close))
        r = c
    return acc


def push(acc, r):
    if r[0] != r[1] and (not acc or acc[-1] != r):
        acc.append(r)


def check_doc(case, rec):
    src, nodes, root = GC.build(case['doc'])
    n = len(src)
    bounds = set()
    for x in nodes:
        if x.kind == 'decl':
            bounds.update([x.start, x.name[1], x.colon, x.colon + 1, x.value[0], x.value[1], x.semi, x.semi + 1])
        else:
            bounds.update([x.start, x.sel[1], x.open, x.open + 1, x.close, x.close + 1])
            t = GC.trimmed(src, x.open + 1, x.close)
            bounds.update(t)
    tops = [x for x in root.children if x.kind == 'rule']
    for pos in range(0, n + 1):
        enc = [x for x in nodes if x.start < pos < x.end]
        enc.sort(key=lambda x: x.end - x.start)
        rec.evals(3)
        try:
            with guard():
                m = match(src, pos)
                out = balanced_outward(src, pos)
                inw = balanced_inward(src, pos)
        except Exception as e:
            rec.fail(core.exc_bucket(e), 'pos %d in %r: %s: %s' % (pos, src, type(e).__name__, e))
            return
        if enc:
            top = enc[-1]
            if (top in tops and tops.index(top) >= 1) or enc[0].depth >= 2 or (enc[0].kind == 'decl' and any(c in src[enc[0].value[0]:enc[0].value[1]] for c in '"\'(')):
                rec.nontrivial(key=(src, pos))
            if top in tops and tops.index(top) >= 1:
                rec.cls('position-in-later-top-level-rule')
        # ---- match
        got = (m.type, m.start, m.end, m.body_start, m.body_end) if m else None
        js = lambda x: js_decl(x) if x.kind == 'decl' else js_rule(x)
        if enc and enc[0].kind == 'decl' and pos >= enc[0].value[1]:
            ok = got == js(enc[0]) or got == (js(enc[1]) if len(enc) > 1 else None)
            want = js(enc[0])
        else:
            want = js(enc[0]) if enc else None
            ok = got == want
        if not ok:
            rec.fail('match:wrong-construct', 'pos %d in %r\n expected %r\n got      %r' % (pos, src, want, got))
            return
        # ---- outward
        exp = []
        alt = []
        for x in enc:
            if x.kind == 'decl':
                if pos < x.semi:
                    push(exp, x.value)
                    push(exp, (x.start, x.end))
                if pos < x.value[1]:
                    push(alt, x.value)
                    push(alt, (x.start, x.end))
            else:
                for acc in (exp, alt):
                    push(acc, GC.trimmed(src, x.open + 1, x.close))
                    push(acc, (x.start, x.end))
        got = [tuple(r) for r in out]
        # a declaration spans from its name to its `;`: positions in the gap between the value end and the `;` are inside it and it must be
        # listed; only the position ON the `;` itself is two-valued (strict interval reading vs the library's caret reading)
        if got != exp and not (got == alt and enc and enc[0].kind == 'decl' and pos >= enc[0].semi):
            kind = 'outward:empty-after-first-top-level-rule' if (enc and not got) else 'outward:wrong-list'
            rec.fail(kind, 'pos %d in %r\n expected %r\n got      %r' % (pos, src, exp, got))
            return
        # ---- inward
        got = [tuple(r) for r in inw]
        cands = []

        def chain_for(x):
            acc = []
            if x.kind == 'decl':
                push(acc, (x.start, x.end))
                push(acc, x.value)
            else:
                push(acc, (x.start, x.end))
                push(acc, GC.trimmed(src, x.open + 1, x.close))
                first_child_chain(src, x, acc)
            return acc
        if enc:
            cands.append(chain_for(enc[0]))
            if enc[0].kind == 'decl' and pos >= enc[0].value[1] and len(enc) > 1:
                cands.append(chain_for(enc[1]))
            if enc[0].kind == 'decl' and pos >= enc[0].value[1] and len(enc) == 1:
                cands.append([])
        else:
            cands.append([])
        if pos in bounds:
            # inclusive reading at a recorded offset: any construct that starts or ends exactly here
            for x in nodes:
                if pos in (x.start, x.end) or (x.kind == 'decl' and pos == x.value[1]):
                    cands.append(chain_for(x))
            for x in enc[1:2]:
                cands.append(chain_for(x))
            cands.append([])
        if got not in cands:
            rec.fail('inward:wrong-chain' + ('-at-boundary' if pos in bounds else ''), 'pos %d in %r\n accepted %r\n got      %r' % (pos, src, cands[:3], got))
            return


CHECKS = {'doc': check_doc}

FIXED = [
    {'doc': [{'t': 'rule', 'sel': 'a', 'gap': ' ', 'items': [{'t': 'ws', 's': ' '}, {'t': 'decl', 'name': 'b', 'pre': '', 'post': ' ', 'value': ['c'], 'vsep': [], 'gap': '', 'term': ';'}, {'t': 'ws', 's': ' '}]},
             {'t': 'ws', 's': '\n'},
             {'t': 'rule', 'sel': 'd:hover', 'gap': '', 'items': [{'t': 'decl', 'name': 'e', 'pre': '', 'post': '', 'value': ['url("a;b{}")', "'x:y'"], 'vsep': [' '], 'gap': ' ', 'term': ';'},
                                                                   {'t': 'rule', 'sel': '&.x', 'gap': ' ', 'items': [{'t': 'ws', 's': '/* } */'}, {'t': 'decl', 'name': '$v', 'pre': ' ', 'post': ' ', 'value': [], 'vsep': [], 'gap': '', 'term': ';'}]}]},
             {'t': 'ws', 's': ' '}, {'t': 'decl', 'name': '--x', 'pre': '', 'post': ' ', 'value': ['1px'], 'vsep': [], 'gap': '', 'term': ';'}]},
]


def shard_random(ctx, shard, nshards, n):
    ctx.run_hypothesis('doc', GC.documents(False).map(lambda d: {'doc': d}), n, seed_key=shard)


def run(ctx):
    ctx.run_cases('doc', FIXED)
    ctx.run_parallel('shard_random', extra=(ctx.pick(12, 300),))
    if ctx.thorough or os.environ.get('VERIF_FUZZ'):
        ctx.run_atheris('doc', ctx.pick(200, 1500), guided=True)


# coverage-guided layer (thorough tier): the Hypothesis strategy under libFuzzer (vlib/fuzz.py, guided mode)
GUIDED = {'doc': lambda: GC.documents(False).map(lambda d: {'doc': d})}
