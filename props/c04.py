"C04 — text content is placed verbatim: inline text and wrapped lines"
import re
import os
from hypothesis import strategies as st
from vlib import core, abbr_model as M, abbr_gen as G
from vlib.core import guard
from emmet import expand

PROP_ID = 'C04'
RULE = ("inline: case = script whose elements carry `{…}` text built from atoms — plain characters over the full punctuation alphabet "
        "(operators, brackets, quotes, * @ ! = / blanks, non-ASCII), balanced `{…}` groups nested ≤ 3, escapes `\\x` for every x, counters — at every "
        "place text may appear (named/nameless elements, before children, repeated elements, groups, text-only items), plus attribute values "
        "containing ( ) [ ] { } and operators; oracle = exact equality with the reference rendering (text verbatim, before the children; a `$#` placeholder "
        "with no wrap text supplied contributes nothing). "
        "wrap: case = (script with at most one implicit repeater `X*` at depth 0–3 with 0–2 `$#` placeholders in text/attribute values "
        "(optionally with an explicit `*N` element or group below it that carries the placeholder, and a self-closing `x/` deepest element), text = list of "
        "0–6 lines or one string over the same alphabet incl. blank lines and lines that look like syntax); oracle = reference placement (one copy per "
        "non-blank line in order, trimmed line verbatim at every placeholder, else appended once to the deepest last element; without `*` the whole "
        "text once in the deepest last element — compared exactly when single-line, by trimmed-line sequence when multi-line). "
        "Exhaustive layer: every text of ≤ 3 (4) characters over the 27-symbol markup alphabet that is balanced and escape-complete, in 3 positions. "
        "Non-trivial: payload contains ≥ 1 syntax character; distinct by case.")
ASSUME = ["raw `$#` / `${` inside inline text, text starting with `<tag`, and characters str.splitlines() treats as line breaks are not generated (field syntax / formatting, covered elsewhere)",
          "`markup.href` plays no role (the deepest element is never `a`)",
          "an abbreviation has at most one implicit repeater and placeholders occur only inside it"]

SYNTAX_CH = set("$#@.*>+^()[]{}'\"=\\/:!,-")


def payload_of(x, acc):
    if isinstance(x, str):
        acc.append(x)
    elif isinstance(x, list):
        for y in x:
            payload_of(y, acc)
    elif isinstance(x, dict):
        for k, v in x.items():
            if k in ('x', 'm', 'g'):
                payload_of(v, acc)


def check_inline(case, rec, distinct=False):
    script = case['script']
    if G.uses_snippet_key(script):
        rec.skip('name-is-snippet-key')
        return
    text = M.ser_script(script)
    nodes = M.unroll(M.interpret(script))
    exp = M.render(nodes, {})
    acc = []
    payload_of(script, acc)
    if any(c in SYNTAX_CH for c in ''.join(acc)):
        rec.nontrivial(distinct=distinct)
    rec.evals()
    try:
        with guard():
            got = expand(text, {'snippets': dict(G.NEUTRALISE), 'options': {'output.format': False}})
    except Exception as e:
        rec.fail(core.exc_bucket(e, 'exc:inline'), '%r: %s: %s' % (text, type(e).__name__, core.short(str(e), 200)))
        return
    if got != exp:
        rec.fail('inline-text-mismatch', 'abbr %r\n expected %r\n got      %r' % (text, exp, got))


def check_inline_x(case, rec):
    check_inline(case, rec, True)


def clean_lines(text):
    return [l.strip() for l in text if l.strip()]


def find_star(script):
    n = 0
    for it in script:
        if isinstance(it, dict):
            if it.get('r') == '*':
                n += 1
            if 'g' in it:
                n += find_star(it['g'])
    return n


def check_wrap(case, rec, distinct=False):
    script, text = case['script'], case['text']
    if G.uses_snippet_key(script):
        rec.skip('name-is-snippet-key')
        return
    abbr = M.ser_script(script)
    stars = find_star(script)
    tree = M.interpret(script)
    payload = ''.join(text) if isinstance(text, list) else text
    if any(c in SYNTAX_CH for c in payload):
        rec.nontrivial(distinct=distinct)
    cfg = {'snippets': dict(G.NEUTRALISE), 'options': {'output.format': False, 'markup.href': False}, 'text': list(text) if isinstance(text, list) else text}
    rec.evals()
    try:
        with guard():
            got = expand(abbr, cfg)
    except Exception as e:
        rec.fail(core.exc_bucket(e, 'exc:wrap'), '%r text=%r: %s: %s' % (abbr, text, type(e).__name__, core.short(str(e), 200)))
        return
    if stars:
        rec.cls('wrap-implicit-repeater' + ('-placeholders' if M.has_placeholder(script) else ''))
        lines = clean_lines(text) if isinstance(text, list) else [text]
        nodes = M.unroll(tree, None, None, lines)
        exp = M.strip_fields(M.render(nodes, {}))
        if got != exp:
            rec.fail('wrap-repeat-mismatch', 'abbr %r text=%r\n expected %r\n got      %r' % (abbr, text, exp, got))
        return
    # no implicit repeater: whole text once into the deepest last element
    nodes = M.unroll(tree)
    if not nodes:
        return
    whole = '\n'.join(text).strip() if isinstance(text, list) else text.strip()
    d = M.deepest_last(nodes[-1])
    if '\n' not in whole and '\r' not in whole:
        rec.cls('wrap-once-single-line')
        d.text = (d.text or '') + whole
        exp = M.strip_fields(M.render(nodes, {}))
        if got != exp:
            rec.fail('wrap-once-mismatch', 'abbr %r text=%r\n expected %r\n got      %r' % (abbr, text, exp, got))
        return
    rec.cls('wrap-once-multi-line')
    # multi-line: indentation of continuation lines is formatting; compare the trimmed non-blank line sequence inside the target element
    mark = '\x00MARK\x00'
    own = M.strip_fields(d.text or '')
    d.text = mark
    skeleton = M.strip_fields(M.render(nodes, {}))
    pre, post = skeleton.split(mark)
    if not (got.startswith(pre) and got.endswith(post) and len(got) >= len(pre) + len(post)):
        rec.fail('wrap-once-mismatch', 'abbr %r text=%r\n expected frame %r … %r\n got %r' % (abbr, text, pre, post, got))
        return
    inner = got[len(pre):len(got) - len(post)]
    got_lines = [l.strip() for l in re.split(r'\r\n|\r|\n', inner) if l.strip()]
    exp_lines = [l.strip() for l in re.split(r'\r\n|\r|\n', own + whole) if l.strip()]
    if got_lines != exp_lines:
        rec.fail('wrap-once-lines-mismatch', 'abbr %r text=%r\n expected lines %r\n got lines      %r' % (abbr, text, exp_lines, got_lines))


def check_wrap_x(case, rec):
    check_wrap(case, rec, True)


def check_alias_text(case, rec):
    """text on an element whose NAME is a built-in alias (incl. the ones defined as empty elements: br, img, input, hr, link, meta…): the text is the
    element's content all the same — present exactly once, verbatim, after the element's open tag; wrap lines once each, in order. A validity
    predicate (the alias's own attributes and tag form are C14's business), added after seeded change C04-12 dropped such texts silently."""
    name, mode, texts, syntax = case['name'], case['mode'], case['texts'], case.get('syntax', 'html')
    cfg = {'syntax': syntax, 'options': {'output.format': False, 'markup.href': False}}
    if mode == 'inline':
        abbr = '%s{%s}' % (name, texts[0])
    elif mode == 'child':
        abbr = 'x1>%s{%s}+x2' % (name, texts[0])
    elif mode == 'wrap-repeat':
        abbr, cfg['text'] = name + '*', list(texts)
    else:
        abbr, cfg['text'] = 'x1>' + name, texts[0]
    rec.evals()
    rec.nontrivial(distinct=True)
    try:
        with guard():
            out = expand(abbr, cfg)
    except Exception as e:
        rec.fail(core.exc_bucket(e), '%r: %s: %s' % (abbr, type(e).__name__, e))
        return
    want = [t.strip() for t in texts if t.strip()] if mode.startswith('wrap') else texts[:1]
    pos = 0
    for t in want:
        k = out.find(t, pos)
        if k < 0 or out.count(t) != sum(1 for w in want if w == t):
            rec.fail('alias-text-lost', 'abbreviation %r%s → %r: text %r %s' % (abbr, (' with wrap text %r' % (cfg.get('text'),)) if 'text' in cfg else '', out, t,
                                                                              'is missing' if k < 0 else 'does not occur exactly once'))
            return
        if '<' not in out[:k]:
            rec.fail('alias-text-lost', 'abbreviation %r → %r: text %r precedes every tag' % (abbr, out, t))
            return
        pos = k + len(t)
    rec.cls('alias-text/' + mode)


def alias_text_cases():
    from emmet.config import Config
    for syntax in ('html', 'xsl'):
        table = Config({'syntax': syntax}).snippets
        # single-element definitions (no operators, no text of their own, no repeater), empty-element ones included
        names = [k for k, v in sorted(table.items()) if re.fullmatch(r'[A-Za-z][\w:.-]*(\[[^\]{}>+^()*]*\])?/?', v) and re.fullmatch(r'[A-Za-z][\w:-]*', k)]
        for i, name in enumerate(names):
            yield {'name': name, 'mode': 'inline', 'texts': [['T1', 'a > b', 'x*2', '(t)'][i % 4]], 'syntax': syntax}
            if table[name].endswith('/') or i % 4 == 0:
                yield {'name': name, 'mode': 'child', 'texts': ['in child'], 'syntax': syntax}
                yield {'name': name, 'mode': 'wrap-repeat', 'texts': ['first.png', '', '  second one  ', 'li*3>a'], 'syntax': syntax}
                yield {'name': name, 'mode': 'wrap-once', 'texts': ['hello world'], 'syntax': syntax}


CHECKS = {'inline': check_inline, 'inline-x': check_inline_x, 'wrap': check_wrap, 'wrap-x': check_wrap_x, 'alias-text': check_alias_text}

# ---- exhaustive: every short text over the markup alphabet that is a *complete* text (balanced braces, no dangling escape, no raw `$`)
ALPHA = list("aA1#@-.*>+^()[]{}'\"= \\/:!")   # the 27-symbol alphabet minus `$` (numbering/field syntax; counters are generated as atoms instead)


def parse_text(s):
    "string → value atoms, or None when s is not a complete text (unbalanced braces / dangling backslash)"
    pos = [0]

    def val(depth):
        out = []
        buf = []
        while pos[0] < len(s):
            c = s[pos[0]]
            if c == '\\':
                if pos[0] + 1 >= len(s):
                    return None
                if buf:
                    out.append(''.join(buf)); buf = []
                out.append(['e', s[pos[0] + 1]])
                pos[0] += 2
            elif c == '{':
                if buf:
                    out.append(''.join(buf)); buf = []
                pos[0] += 1
                inner = val(depth + 1)
                if inner is None or pos[0] >= len(s) or s[pos[0]] != '}':
                    return None
                pos[0] += 1
                out.append(['b', inner])
            elif c == '}':
                if depth == 0:
                    return None
                break
            else:
                buf.append(c)
                pos[0] += 1
        if buf:
            out.append(''.join(buf))
        return out
    v = val(0)
    if v is None or pos[0] != len(s):
        return None
    return v


def el(name, **kw):
    d = {'n': [name], 'm': [], 'x': None, 'r': None, 'sc': False}
    d.update(kw)
    return d


def shard_exhaustive(ctx, shard, nshards, maxlen):
    k = 0
    for s in core.all_strings(ALPHA, maxlen, 1):
        v = parse_text(s)
        if v is None:
            continue
        k += 1
        if k % nshards != shard:
            continue
        # three positions: leaf text, text before children inside a repeated parent, text-only sibling items
        ctx.rec.run_case(CHECKS, 'inline-x', {'script': [el('p', x=v)]})
        ctx.rec.run_case(CHECKS, 'inline-x', {'script': [el('x1', x=v, r=2), '>', el('x2'), '+', {'n': None, 'm': [['.', ['c']]], 'x': v, 'r': None, 'sc': False}]})
        ctx.rec.run_case(CHECKS, 'inline-x', {'script': [el('p'), '>', {'n': None, 'm': [], 'x': v, 'r': None, 'sc': False}, '+', el('b', x=v), '+', {'n': None, 'm': [], 'x': ['z'], 'r': None, 'sc': False}]})
        ctx.rec.run_case(CHECKS, 'inline-x', {'script': [el('p', x=v + [['#']] + v), '>', {'n': None, 'm': [], 'x': [['#']], 'r': None, 'sc': False}]})
        if len(s) <= 2:
            # the same payload as one wrap line, with and without implicit repeater / placeholder
            for sc in ([el('x1', r='*')], [el('ul'), '>', el('li', r='*', x=['[', ['#'], ']'], m=[['a', 'title', 'dq', [['#']], False]])], [el('x1'), '>', el('x2')]):
                ctx.rec.run_case(CHECKS, 'wrap-x', {'script': sc, 'text': [s, '', ' ' + s + ' ']})


P_INLINE = G.P(names=G.NEUTRAL + ['p', 'div', 'span', 'em', 'ul'], nameless=0.12, mentions='paren', text=0.75, text_kind='full', text_only=0.2, groups=0.15, max_items=5,
               max_depth=2, rep=0.2, rep_max=3, sc=0.1, counters=True, counter_forms='all', max_nodes=120)

LINE_ALPHA = list("abcXY12 \t#@-.*>+^()[]{}'\"=\\/:!$,;&%") + ['é', '☃']
LOOKS_LIKE = ['ul>li*3', 'a{b}', '$$@-', '${1:x}', '$#', '\\', '\\\\', '*', '*2', ')', ']', '}', '{', 'a+b', 'p>{x}', '[a=b]', '- item', '1. one', '$', 'x$y', '#id.cls', '/']


def lines_strategy():
    line = st.one_of(st.text(alphabet=LINE_ALPHA, max_size=8), st.sampled_from(LOOKS_LIKE), st.sampled_from(['', ' ', '\t ', '  x  ']))
    return st.lists(line, min_size=0, max_size=6)


@st.composite
def wrap_case(draw):
    depth = draw(st.integers(0, 3))
    mode = draw(st.sampled_from(['star', 'star', 'star-ph', 'star-ph', 'none']))
    names = ['x1', 'x2', 'x3', 'x4', 'ul', 'p']
    sc = []
    for d in range(depth):
        sc += [el(names[d], r=draw(st.sampled_from([None, None, 2])) if mode == 'none' else None, x=draw(st.sampled_from([None, None, ['t']]))), '>']
    x = el('xt')
    sc_last = draw(st.integers(0, 5)) == 0     # the deepest last element is written self-closing (`x/`): its text is still its content
    nested = draw(st.sampled_from([None, None, 2, 3])) if mode != 'none' else None   # explicit repeater below the implicit one
    # own inline text of the receiving element, also one that ends in a tabstop field (the wrap text is appended after it)
    own = draw(st.sampled_from([None, None, ['own '], ['own '], ['own ', ['f', 1, None]], ['Name: ', ['f', 1, 'n']], [['f', 0, None]]]))
    if own is not None:
        x['x'] = own
    if mode != 'none':
        x['r'] = '*'
    if mode == 'star-ph':
        where = draw(st.sampled_from(['text', 'attr', 'both', 'child', 'twice']))
        if where in ('text', 'both', 'twice'):
            x['x'] = ['[', ['#'], ']'] + ([' again ', ['#']] if where == 'twice' else [])
        if where in ('attr', 'both'):
            x['m'] = [['a', 'title', draw(st.sampled_from(['dq', 'sq'])), ['v ', ['#']], False]]
    tail = draw(st.sampled_from(['leaf', 'child', 'children', 'group']))
    item = x
    if tail == 'group' and mode != 'none':
        # the group carries the implicit repeater
        inner = dict(x)
        inner['r'] = None
        item = {'g': [el('x5'), '+', inner, '>', el('x6')], 'r': '*'}
    sc.append(item)
    if tail in ('child', 'children') and 'g' not in item:
        sc += ['>', el('x7', r=nested if tail == 'child' else None)]
        if tail == 'children':
            sc += ['+', el('x8', x=['k'] if mode != 'star-ph' or draw(st.booleans()) else [['#']])]
            if mode == 'star-ph' and sc[-1]['x'] == [['#']] and not M.has_placeholder(x):
                pass
    if mode == 'star-ph' and where == 'child':
        if sc[-1] is item:
            if nested and draw(st.booleans()):
                # placeholder inside an explicitly repeated group below the implicit repeater: every copy gets the line of its implicit copy
                sc += ['>', {'g': [el('x7', m=[['a', 'title', 'dq', [['#']], False]]), '+', el('x9', x=[['#'], '!'])], 'r': nested}]
            else:
                sc += ['>', el('x7', x=['c:', ['#']], r=nested)]
        else:
            sc[-1]['x'] = ['c:', ['#']]
    if mode == 'none' and draw(st.booleans()):
        text = draw(st.one_of(st.text(alphabet=LINE_ALPHA, max_size=10), st.sampled_from(LOOKS_LIKE)))
    elif draw(st.floats(0, 1)) < 0.12 and mode != 'none':
        text = draw(st.text(alphabet=[c for c in LINE_ALPHA if c not in ' \t'], min_size=1, max_size=8))
    else:
        text = draw(lines_strategy())
    if sc[-1] is not x:
        # an element whose text carries a field prints its children in place of the field (C13's business): fields only on a childless receiver
        for holder in ([x] if 'g' not in item else [x, inner]):
            if holder.get('x'):
                holder['x'] = [a for a in holder['x'] if not (isinstance(a, list) and a[0] == 'f')] or None
    last = sc[-1]
    blank = not (''.join(text) if isinstance(text, list) else text).strip()
    if sc_last and 'g' not in last and not (mode == 'none' and blank):
        # (an empty text inserted into `x/` leaves the choice of tag form open; that is not this property's concern)
        last['sc'] = True
    return {'script': sc, 'text': text}


P_INLINE_PH = G.P(**dict(P_INLINE.__dict__, placeholders=True))


def shard_inline(ctx, shard, nshards, n):
    ctx.run_hypothesis('inline', G.scripts(P_INLINE).map(lambda sc: {'script': sc}), n, seed_key=shard)
    # `$#` placeholders with no wrap text supplied: nothing to insert, the rest of the text stays verbatim
    ctx.run_hypothesis('inline', G.scripts(P_INLINE_PH).map(lambda sc: {'script': sc}), max(20, n // 4), seed_key=200 + shard)


def shard_wrap(ctx, shard, nshards, n):
    ctx.run_hypothesis('wrap', wrap_case(), n, seed_key=100 + shard)


def run(ctx):
    L = ctx.pick(3, 4)
    ctx.run_parallel('shard_exhaustive', extra=(L,))
    ctx.exhaustive('every complete text of length ≤ %d over the 26-symbol alphabet (markup alphabet minus `$`) in 3 positions; every such text ≤ 2 as wrap line in 3 abbreviations' % L)
    ctx.run_cases('alias-text', alias_text_cases())
    ctx.exhaustive('every built-in html/xsl alias with a single-element definition (empty-element definitions included) × inline text; the empty-element ones and every 4th other also as child, under `name*` with 4 wrap lines, and as wrap target')
    ctx.run_parallel('shard_inline', extra=(ctx.pick(300, 4000),))
    ctx.run_parallel('shard_wrap', extra=(ctx.pick(400, 5000),))
    if ctx.thorough or os.environ.get('VERIF_FUZZ'):
        ctx.run_atheris('inline', ctx.pick(300, 1500), guided=True)
        ctx.run_atheris('wrap', ctx.pick(300, 1500), guided=True)


# coverage-guided layer (thorough tier): the Hypothesis strategy under libFuzzer (vlib/fuzz.py, guided mode)
GUIDED = {'inline': lambda: G.scripts(P_INLINE).map(lambda sc: {'script': sc}), 'wrap': wrap_case}
