"C06 — a stylesheet snippet is always reachable by its own key"
import re
from hypothesis import strategies as st
from vlib import core, css_model as C
from vlib.core import guard
from emmet import expand
from emmet.snippets.css import snippets as RAW_TABLE

PROP_ID = 'C06'
RULE = ("(a) exhaustive: every key of the shipped stylesheet table × syntaxes css/scss/sass/less/sss/stylus × scopes none/@@global/@@section/@@property; "
        "(b) exhaustive: every dash-free keyword (top-level word or function name of an alternative, outside quoted strings, fields and function arguments) of "
        "every property snippet typed as `key:kw` and `key-kw` in lower/UPPER/Mixed case; (c) Hypothesis: user tables with 1–5 entries that override shipped keys "
        "or add new all-letter keys (lower case and camelCase), each also expanded with a cache that the shipped table has filled, property and raw bodies. Oracle derived from the *table text*, not from the resolver: `prop[:alt|alt…]` ⇒ "
        "`prop<between><first alternative with fields reduced><after>` (compared with blanks removed), a tabstop marker present iff there is no value, several "
        "alternatives or explicit fields; raw body ⇒ the body with fields reduced, exactly; `key:kw` ⇒ value is kw or starts with `kw(`; @@section hides property "
        "lines and keeps raw bodies, @@property dually; a user entry wins under its key. Non-trivial: every case except raw snippets without fields; each case is "
        "a distinct (syntax, key[, keyword, case, scope]) tuple.")
ASSUME = ["the documented snippet shape is `name` or `name:alt|alt…` for properties, anything else is a raw body",
          "field reduction under the default field callback: ${n:x} → x, ${n} → '' (quoted strings in property values are kept verbatim by the value parser)",
          "`lg` (resolved by the gradient shortcut, not by table lookup) is not used as a user key and not combined with a scope"]

re_prop = re.compile(r'^([a-z-]+)(?:\s*:\s*([^\n\r;]+?);*)?$')
SYNTAXES = ['css', 'scss', 'sass', 'less', 'sss', 'stylus']
MARK = lambda index, placeholder, **kw: '⟦%s⟧' % placeholder


def table():
    out = {}
    for k, v in RAW_TABLE.items():
        for name in k.split('|'):
            out[name] = v
    return out


TABLE = table()


def reduce_fields(s, keep_quoted):
    "default field callback: ${n:x} → x, ${n} → ''"
    def red(t):
        prev = None
        while prev != t:
            prev = t
            t = re.sub(r'\$\{(\d+)(?::([^{}]*))?\}', lambda m: m.group(2) or '', t)
        return t
    if not keep_quoted:
        return red(s)
    parts = re.split(r'''("[^"]*"|'[^']*')''', s)
    return ''.join(p if i % 2 else red(p) for i, p in enumerate(parts))


def has_fields(s):
    parts = re.split(r'''("[^"]*"|'[^']*')''', s)
    return any(re.search(r'\$\{\d+', p) for i, p in enumerate(parts) if i % 2 == 0)


def keywords_of(alts):
    "top-level dash-free words / function names of the alternatives (text-derived)"
    out = []
    for alt in alts:
        t = re.sub(r'''"[^"]*"|'[^']*\'''', ' ', alt)
        t = re.sub(r'\$\{[^{}]*\}', ' \x00 ', t)
        prev = None
        while prev != t:
            prev = t
            t = re.sub(r'\(([^()]*)\)', '(\x01', t)
        for w in re.split(r'[\s,]+', t):
            m = re.fullmatch(r'([A-Za-z]+)(\(\x01)?', w)
            if m and (m.group(1), bool(m.group(2))) not in out:
                out.append((m.group(1), bool(m.group(2))))
    return out


def nb(s):
    return re.sub(r'\s+', '', s)


def expected_for(body, o):
    m = re_prop.match(body)
    if m:
        alts = m.group(2).split('|') if m.group(2) else []
        first = alts[0] if alts else ''
        return ('prop', m.group(1), alts, m.group(1) + o['stylesheet.between'] + reduce_fields(first, True) + o['stylesheet.after'])
    return ('raw', None, None, reduce_fields(body, False))


def check_key(case, rec):
    syntax, key, scope = case['syntax'], case['key'], case.get('scope')
    user = case.get('user')
    tbl = dict(TABLE)
    if user:
        tbl.update(user)
    body = tbl[key]
    cfg = {'type': 'stylesheet', 'syntax': syntax}
    if scope:
        cfg['context'] = {'name': scope}
    if user:
        cfg['snippets'] = dict(user)
    o = C.options({'syntax': syntax})
    kind, prop, alts, exp = expected_for(body, o)
    if not (kind == 'raw' and not re.search(r'\$\{', body)):
        rec.nontrivial(distinct=True)
    rec.cls('%s/%s' % (kind, scope or 'no-scope'))
    rec.evals()
    try:
        with guard():
            got = expand(key, dict(cfg))
            cfg2 = dict(cfg)
            cfg2['options'] = {'output.field': MARK}
            marked = expand(key, cfg2)
            if user:
                # the user's table also wins when the call carries a cache that the shipped table (same syntax, no user entries) has filled
                cache = {}
                base = {'type': 'stylesheet', 'syntax': syntax, 'cache': cache}
                if scope:
                    base['context'] = {'name': scope}
                expand(key if key in TABLE else 'm', base)
                cached = expand(key, dict(cfg, cache=cache))
            else:
                cached = got
    except Exception as e:
        rec.fail(core.exc_bucket(e), 'key %r (%s, scope %s): %s: %s' % (key, syntax, scope, type(e).__name__, e))
        return
    if cached != got:
        rec.fail('own-key-not-selected:shared-cache', 'key %r (%s) user table %r: with a cache filled by the shipped table %r, without cache %r' % (key, syntax, user, cached, got))
        return
    hidden = (scope == '@@section' and kind == 'prop') or (scope == '@@property' and kind == 'raw')
    if hidden:
        same = nb(got) == nb(exp) if kind == 'prop' else got == exp
        if same and exp:
            rec.fail('scope-not-restricting:' + scope, 'key %r under %s still yields %r' % (key, scope, got))
        return
    if kind == 'prop':
        if nb(got) != nb(exp):
            rec.fail('own-key-not-selected:property', 'key %r (%s) defined as %r\n expected %r\n got      %r' % (key, syntax, body, exp, got))
            return
        want_marker = (not alts) or len(alts) > 1 or has_fields(alts[0])
        # a tabstop's placeholder is handed to the field callback as written in the table, edge blanks included (`${1:inset }${2:hoff}`: the
        # blank inside the first placeholder is the only separator there) — blank placement BETWEEN tokens stays unclaimed
        if len(alts) == 1 or (alts and has_fields(alts[0])):
            first_nq = re.sub(r'''"[^"]*"|'[^']*\'''', ' ', alts[0])
            for ph in re.findall(r'\$\{\d+:([^{}]*)\}', first_nq):
                if ph != ph.strip() and ('⟦%s⟧' % ph) not in marked:
                    rec.fail('placeholder-text-changed', 'key %r defined as %r: placeholder %r not handed to the field callback verbatim: %r' % (key, body, ph, marked))
                    break
        if ('⟦' in marked) != want_marker:
            rec.fail('tabstop-presence', 'key %r defined as %r: marker %s, output %r' % (key, body, 'missing' if want_marker else 'unexpected', marked))
    else:
        if got != exp:
            rec.fail('own-key-not-selected:raw', 'key %r (%s) defined as %r\n expected %r\n got      %r' % (key, syntax, body, exp, got))
            return
        if ('⟦' in marked) != bool(re.search(r'\$\{\d+', body)):
            rec.fail('tabstop-presence', 'raw key %r: output %r' % (key, marked))


def check_keyword(case, rec):
    key, sep, typed, word, fn = case['key'], case['sep'], case['typed'], case['word'], case['fn']
    body = TABLE[key]
    m = re_prop.match(body)
    o = C.options({'syntax': 'css'})
    rec.nontrivial(distinct=True)
    rec.cls('keyword-' + ('function' if fn else 'literal'))
    rec.evals()
    abbr = key + sep + typed
    try:
        with guard():
            got = expand(abbr, {'type': 'stylesheet'})
    except Exception as e:
        rec.fail(core.exc_bucket(e), '%r: %s: %s' % (abbr, type(e).__name__, e))
        return
    head = m.group(1) + o['stylesheet.between']
    if not got.startswith(head):
        rec.fail('keyword-wrong-property', '%r → %r, expected property %r' % (abbr, got, m.group(1)))
        return
    val = got[len(head):]
    if val.endswith(o['stylesheet.after']):
        val = val[:len(val) - len(o['stylesheet.after'])]
    ok = val.startswith(word + '(') if fn else val == word
    if not ok:
        rec.fail('keyword-not-resolved', '%r → %r, expected value %s (listed in %r)' % (abbr, got, word + ('(…)' if fn else ''), body))


def check_user(case, rec):
    "user table: every user key must expand per the user's definition; untouched shipped keys per theirs"
    user, syntax = case['user'], case['syntax']
    for key in list(user) + case.get('probe', []):
        if key not in user and key not in TABLE:
            continue
        check_key({'syntax': syntax, 'key': key, 'user': user, 'scope': case.get('scope')}, rec)


CHECKS = {'key': check_key, 'keyword': check_keyword, 'user': check_user}


def all_keys():
    for syntax in SYNTAXES:
        for key in TABLE:
            for scope in (None, '@@global', '@@section', '@@property'):
                if scope and (syntax not in ('css', 'stylus') or key == 'lg'):
                    # `lg` is resolved by the gradient shortcut before any table lookup; its behaviour under a context is not a snippet-selection question
                    continue
                yield {'syntax': syntax, 'key': key, 'scope': scope}


def all_keywords():
    seen = set()
    for key, body in TABLE.items():
        m = re_prop.match(body)
        if not m or not m.group(2):
            continue
        for word, fn in keywords_of(m.group(2).split('|')):
            for typed in (word.lower(), word.upper(), word.capitalize(), word):
                for sep in (':', '-'):
                    c = {'key': key, 'sep': sep, 'typed': typed, 'word': word, 'fn': fn}
                    k = core.canon(c)
                    if k not in seen:
                        seen.add(k)
                        yield c


def shard_table(ctx, shard, nshards):
    ctx.run_cases('key', core.sharded(all_keys(), shard, nshards))
    ctx.run_cases('keyword', core.sharded(all_keywords(), shard, nshards))


def user_strategy():
    shipped = sorted(TABLE)
    lower = st.text('abcdefghijkmnopqrstuvwxyz', min_size=1, max_size=4).filter(lambda k: k != 'lg')
    # camelCase keys as well (`myGap`): they must not coincide, letter case ignored, with a shipped key (which of the two wins is not specified)
    camel = st.builds(lambda a, b: a + b.capitalize(), st.text('abcdefghijkmnopqrstuvwxyz', min_size=1, max_size=3), st.text('abcdefghijkmnopqrstuvwxyz', min_size=1, max_size=4)).filter(
        lambda k: k.lower() not in TABLE and k.lower() != 'lg')
    letters = st.one_of(lower, lower, camel)
    word = st.text('abcdefghijklmnopqrstuvwxyz', min_size=2, max_size=7)
    prop_body = st.builds(lambda p, alts: p + (':' + '|'.join(alts) if alts else ''), st.builds(lambda a, b: a + '-' + b, word, word),
                          st.lists(st.one_of(word, st.builds(lambda w, n: '${1:%s} %s' % (w, n), word, word), st.builds(lambda w: "'%s x'" % w, word)), max_size=3))
    raw_body = st.builds(lambda a, b, c: '@%s ${1:%s} {\n\t${0}%s\n}' % (a, b, c), word, word, st.sampled_from(['', ' x', ';']))
    entry = st.tuples(st.one_of(st.sampled_from(shipped).filter(lambda k: k != 'lg'), letters), st.one_of(prop_body, prop_body, raw_body))
    def table(es):
        seen, out = set(), {}
        for k, v in es:
            if k.lower() not in seen:
                seen.add(k.lower())
                out[k] = v
        return out
    # under a restricting scope as well (the cached variant then goes through the scope filter with a cache the shipped table has filled)
    return st.builds(lambda es, s, pr, sc: {'user': table(es), 'syntax': s, 'probe': pr, 'scope': sc}, st.lists(entry, min_size=1, max_size=5), st.sampled_from(SYNTAXES),
                     st.lists(st.sampled_from(shipped), max_size=3), st.sampled_from([None, None, '@@section', '@@property', '@@global']))


def shard_user(ctx, shard, nshards, n):
    ctx.run_hypothesis('user', user_strategy(), n, seed_key=shard)


def run(ctx):
    ctx.run_parallel('shard_table')
    ctx.exhaustive('every key of the shipped table (%d) × 6 syntaxes; × 4 scopes for css and stylus' % len(TABLE))
    ctx.exhaustive('every dash-free top-level keyword of every property snippet × {:, -} × lower/UPPER/Capitalized/as-listed')
    ctx.run_parallel('shard_user', extra=(ctx.pick(30, 600),))
