"C17 — editor action helpers select exactly the tag, attribute and property parts"
from hypothesis import strategies as st
from vlib import core, gen_html as GH, gen_css as GC
from vlib.core import guard
from emmet.action_utils import get_open_tag, select_item_html, get_css_section, select_item_css

PROP_ID = 'C17'
RULE = ("HTML: case = document tree (same generator and recorded ground truth as C09: every tag and every attribute's four offsets, value incl. quotes, class tokens); "
        "every position: get_open_tag = the open/self-closing/void/special-open tag with start < pos < end and attributes equal to the record (a closing tag under the "
        "caret is returned without attributes, None elsewhere); select_item_html next = first open/self-closing tag with end > pos, previous = last with start < pos, "
        "ranges = tag name, then per attribute full range, unquoted value range (omitted when empty) and class tokens, adjacent duplicates/empty ranges dropped. "
        "CSS: case = stylesheet tree (C10 generator plus a last declaration terminated by the end of the body, empty values, stray `;`, nested rules between "
        "declarations); every position: get_css_section = innermost rule containing pos with selector start, `}`+1, `{`+1, `}`; properties=True → direct declarations "
        "only with exact name/value/value-token ranges, before = end of the previous sibling declaration/nested rule or body start, after = `;`+1 or the value end for "
        "a body-end-terminated declaration; select_item_css in the gaps between items = exactly the following/preceding selector (one range) or declaration (full, "
        "value, value tokens); inside an item = validity (ranges are recorded ranges inside [start, end]). Boundaries two-valued as in C09/C10. "
        "Non-trivial: tag with ≥ 2 attributes of different value kinds, section with a nested rule between declarations, or a body-end-terminated declaration; distinct by (document, position). Value-less statements layer: generated stylesheets with `@include x;`, `@extend .a;`, `@import …;`, bare names among declarations — select_item_css next/previous at every position: item inside the document, every range ordered and inside the item.")
ASSUME = ["value separators in generated declarations are blanks, commas and ` / ` (a comment inside a value is split by split_value as operators — not claimed either way)",
          "for a declaration terminated by `}` select_item_css may end the full range at the value end, at the brace or after it (the statement fixes name, value and tokens only)"]

SPACE = ' \t\n\r\xa0'


def push_range(acc, r):
    if r[0] != r[1] and (not acc or acc[-1] != r):
        acc.append(r)


def value_range(v, vs, ve):
    if v[0] in '"\'':
        return (vs + 1, ve - (1 if v[-1] == v[0] else 0))
    if v[0] == '{' and v[-1] == '}':
        return (vs + 1, ve - 1)
    return (vs, ve)


def tokens_of(src, a, b):
    out = []
    i = a
    while i < b:
        while i < b and src[i] in SPACE:
            i += 1
        j = i
        while j < b and src[j] not in SPACE:
            j += 1
        if j > i:
            out.append((i, j))
        i = j
    return out


def tag_model(src, e):
    ranges = [(e.open[0] + 1, e.open[0] + 1 + len(e.name))]
    for name, ns, ne, v, vs, ve in e.attrs:
        if v is not None:
            push_range(ranges, (ns, ve))
            a, b = value_range(v, vs, ve)
            if a != b:
                push_range(ranges, (a, b))
                if name == 'class':
                    for t in tokens_of(src, a, b):
                        push_range(ranges, t)
        else:
            push_range(ranges, (ns, ne))
    return (e.open[0], e.open[1], ranges)


def check_html(case, rec):
    doc, xml = case['doc'], False
    src, els, noise = GH.build(doc, xml)
    n = len(src)
    nt = any(len({a[3] is None and 'none' or a[3][0] for a in e.attrs}) >= 2 for e in els)
    if nt:
        rec.cls('tag-with-mixed-attribute-kinds')
    opens = sorted(els, key=lambda e: e.open[0])
    closes = [(e.close, e.name) for e in els if e.close]
    for pos in range(0, n + 1):
        rec.evals(3)
        if nt:
            rec.nontrivial(key=('h', src, pos))
        try:
            with guard():
                t = get_open_tag(src, pos)
                nx = select_item_html(src, pos)
                pv = select_item_html(src, pos, True)
        except Exception as e:
            rec.fail(core.exc_bucket(e), 'pos %d in %r: %s: %s' % (pos, src, type(e).__name__, e))
            return
        # ---- get_open_tag
        exp = None
        for e in opens:
            if e.open[0] < pos < e.open[1]:
                exp = ('open', e)
        for (a, b), name in closes:
            if a < pos < b:
                exp = ('close', (a, b), name)
        if exp is None:
            if t is not None:
                rec.fail('get_open_tag:unexpected', 'pos %d in %r: got %r' % (pos, src, t.to_json()))
                return
        elif exp[0] == 'close':
            if t is None or (t.name, t.start, t.end) != (exp[2], exp[1][0], exp[1][1]) or t.attributes:
                rec.fail('get_open_tag:closing-tag', 'pos %d in %r: expected closing tag %r without attributes, got %r' % (pos, src, exp[1:], t and t.to_json()))
                return
        else:
            e = exp[1]
            if t is None or (t.name, t.start, t.end) != (e.name, e.open[0], e.open[1]):
                rec.fail('get_open_tag:wrong-tag', 'pos %d in %r: expected %r, got %r' % (pos, src, (e.name, e.open), t and t.to_json()))
                return
            ga = [(a.name, a.name_start, a.name_end, a.value, a.value_start, a.value_end) for a in (t.attributes or [])]
            if ga != e.attrs:
                rec.fail('get_open_tag:attributes', 'pos %d in %r\n expected %r\n got      %r' % (pos, src, e.attrs, ga))
                return
            if (e.kind == 'self') != (t.type == 3):
                rec.fail('get_open_tag:type', 'pos %d in %r: kind %s reported as type %r' % (pos, src, e.kind, t.type))
                return
        # ---- select next / previous
        want = None
        for e in opens:
            if e.open[1] > pos:
                want = tag_model(src, e)
                break
        got = (nx.start, nx.end, [tuple(r) for r in nx.ranges]) if nx else None
        if got != want:
            rec.fail('select_item_html:next', 'pos %d in %r\n expected %r\n got      %r' % (pos, src, want, got))
            return
        want = None
        for e in opens:
            if e.open[0] < pos:
                want = tag_model(src, e)
        got = (pv.start, pv.end, [tuple(r) for r in pv.ranges]) if pv else None
        if got != want:
            rec.fail('select_item_html:previous', 'pos %d in %r\n expected %r\n got      %r' % (pos, src, want, got))
            return


def decl_end_options(x, parent):
    if x.terminated:
        return [x.semi + 1]
    close = parent.close if parent is not None and parent.kind == 'rule' else None
    return [x.value[1]] + ([close, close + 1] if close is not None else [])


def check_css(case, rec):
    src, nodes, root = GC.build(case['doc'])
    n = len(src)
    rules = [x for x in nodes if x.kind == 'rule']
    items = sorted(nodes, key=lambda x: x.start)
    nt = False
    for r in rules:
        kinds = [c.kind for c in r.children]
        if any(kinds[i] == 'rule' and 'decl' in kinds[:i] and 'decl' in kinds[i + 1:] for i in range(len(kinds))):
            nt = True
            rec.cls('nested-rule-between-declarations')
        if any(c.kind == 'decl' and not c.terminated for c in r.children):
            nt = True
            rec.cls('body-end-terminated-declaration')
    recorded = set()
    for x in nodes:
        if x.kind == 'rule':
            recorded.add(x.sel)
        else:
            recorded.add(x.name)
            recorded.add(x.value)
            recorded.update(x.tokens)
            for e in decl_end_options(x, x.parent):
                recorded.add((x.start, e))
    for pos in range(0, n + 1):
        rec.evals(3)
        if nt:
            rec.nontrivial(key=('c', src, pos))
        try:
            with guard():
                sec = get_css_section(src, pos, True)
                nx = select_item_css(src, pos)
                pv = select_item_css(src, pos, True)
        except Exception as e:
            rec.fail(core.exc_bucket(e), 'pos %d in %r: %s: %s' % (pos, src, type(e).__name__, e))
            return
        # ---- section
        strict = sorted([r for r in rules if r.start < pos < r.end], key=lambda r: r.end - r.start)
        incl = sorted([r for r in rules if r.start <= pos <= r.end], key=lambda r: r.end - r.start)
        cands = [strict[0] if strict else None] + incl
        got = (sec.start, sec.end, sec.body_start, sec.body_end) if sec else None
        match_rule = None
        for r in cands:
            want = (r.start, r.end, r.open + 1, r.close) if r is not None else None
            if got == want:
                match_rule = r
                break
        else:
            rec.fail('get_css_section:wrong-section', 'pos %d in %r\n expected one of %r\n got %r' % (
                pos, src, [(r.start, r.end, r.open + 1, r.close) if r else None for r in cands][:3], got))
            return
        if sec is not None:
            r = match_rule
            exp = []
            before = r.open + 1
            for c in r.children:
                if c.kind == 'decl':
                    after = c.semi + 1 if c.terminated else c.value[1]
                    exp.append((c.name, c.value, list(c.tokens), before, after))
                    before = after
                else:
                    before = c.end
            gp = [(tuple(p.name), tuple(p.value), [tuple(t) for t in p.value_tokens], p.before, p.after) for p in (sec.properties or [])]
            if gp != exp:
                k = 0
                while k < min(len(gp), len(exp)) and gp[k] == exp[k]:
                    k += 1
                what = 'count'
                if k < min(len(gp), len(exp)):
                    g, e = gp[k], exp[k]
                    what = 'name' if g[0] != e[0] else 'value' if g[1] != e[1] else 'value-tokens' if g[2] != e[2] else 'before' if g[3] != e[3] else 'after'
                rec.fail('get_css_section:properties:' + what, 'pos %d in %r: property #%d\n expected %r\n got      %r' % (pos, src, k, exp[k] if k < len(exp) else None, gp[k] if k < len(gp) else None))
                return
        # ---- select item
        def inside_item(p):
            for x in nodes:
                if x.kind == 'rule' and x.sel[0] < p < x.sel[1]:
                    return True
                if x.kind == 'decl' and x.start < p < max(decl_end_options(x, x.parent)):
                    return True
            return False

        def models(x):
            "accepted (start, end, ranges) triples for item x"
            if x.kind == 'rule':
                return [(x.sel[0], x.sel[1], [x.sel])]
            out = []
            for e in decl_end_options(x, x.parent):
                ranges = []
                push_range(ranges, (x.start, e))
                push_range(ranges, x.value)
                for t in x.tokens:
                    push_range(ranges, t)
                out.append((x.start, e, ranges))
            return out
        for label, res, pick in (('next', nx, lambda: next((x for x in items if (x.sel[0] if x.kind == 'rule' else x.start) >= pos), None)),
                                 ('previous', pv, lambda: next((x for x in reversed(items) if (x.sel[0] if x.kind == 'rule' else x.start) < pos), None))):
            got = (res.start, res.end, [tuple(r) for r in res.ranges]) if res else None
            if not inside_item(pos):
                x = pick()
                acc = models(x) if x is not None else [None]
                if got not in acc:
                    rec.fail('select_item_css:' + label, 'pos %d (gap) in %r\n expected %r\n got      %r' % (pos, src, acc[0], got))
                    return
            elif got is not None:
                s, e, rs = got
                if not (0 <= s <= e <= n) or any(not (s <= a <= b <= e) for a, b in rs) or any(r not in recorded for r in rs):
                    rec.fail('select_item_css:' + label + ':invalid-range', 'pos %d (inside an item) in %r: %r has ranges that are not recorded parts of an item' % (pos, src, got))
                    return


def check_css_bare(case, rec):
    """stylesheets that also contain value-less statements (`@include x;`, `@extend .a;`, `@import \"f\";`): what such a statement counts as is
    not stated, so only the clauses that hold for whatever is returned are asserted — every range is ordered and lies inside the returned item, the item
    inside the document"""
    src = case['src']
    n = len(src)
    rec.cls('value-less-statements')
    for pos in range(0, n + 1):
        rec.evals(2)
        rec.nontrivial(key=('b', src, pos))
        for prev in (False, True):
            try:
                with guard():
                    res = select_item_css(src, pos, prev)
            except Exception as e:
                rec.fail(core.exc_bucket(e), 'pos %d in %r: %s: %s' % (pos, src, type(e).__name__, e))
                return
            if res is None:
                continue
            s, e, rs = res.start, res.end, [tuple(r) for r in res.ranges]
            if not (0 <= s <= e <= n) or any(not (s <= a <= b <= e) for a, b in rs):
                rec.fail('select_item_css:%s:ill-formed' % ('previous' if prev else 'next'), 'pos %d in %r: item (%r, %r) ranges %r' % (pos, src, s, e, rs))
                return


CHECKS = {'html': check_html, 'css': check_css, 'css-bare': check_css_bare}


def bare_documents():
    decl = st.sampled_from(['color: red;', 'margin: 0 auto;', 'border: 1px solid blue;', '$v: 1;', 'a:b;'])
    bare = st.sampled_from(['@include clearfix;', '@extend .a;', '@import "base";', '@include m(1px, 2px);', 'bare', '@content;'])
    item = st.one_of(decl, decl, bare, bare)
    body = st.lists(item, min_size=1, max_size=4).map(' '.join)
    rule = st.builds(lambda sel, b, nested: '%s { %s%s }' % (sel, b, (' ' + nested) if nested else ''), st.sampled_from(['.a', 'a:hover', '@media (min-width: 1px)', '.b > li']), body,
                     st.one_of(st.just(''), st.builds(lambda b: '.n { %s }' % b, body)))
    top = st.one_of(rule, rule, bare, decl)
    return st.lists(top, min_size=1, max_size=3).map(lambda xs: {'src': '\n'.join(xs) + '\n'})


def css_documents():
    # C17 variant of the C10 generator: no comments inside values, stray semicolons between items, last declaration may end at the body end
    import copy

    def fix(doc):
        def walk(lst, top):
            out = []
            for i, it in enumerate(lst):
                it = dict(it)
                if it['t'] == 'decl':
                    it['vsep'] = [s if '/*' not in s else ' ' for s in it.get('vsep') or []]
                    it['post'] = it.get('post') if '/*' not in (it.get('post') or '') else ' '
                    it['gap'] = it.get('gap') if '/*' not in (it.get('gap') or '') else ''
                    it['pre'] = it.get('pre') if '/*' not in (it.get('pre') or '') else ''
                elif it['t'] == 'rule':
                    it['items'] = walk(it['items'], False)
                out.append(it)
            return out
        return walk(doc, True)
    stray = st.sampled_from([{'t': 'ws', 's': ';'}, {'t': 'ws', 's': ' ; '}, {'t': 'ws', 's': ''}, {'t': 'ws', 's': ''}])

    def add_stray(doc, strays):
        k = [0]

        def walk(lst):
            out = []
            for it in lst:
                if it['t'] == 'rule':
                    it = dict(it)
                    it['items'] = walk(it['items'])
                out.append(it)
                if it['t'] == 'decl' and it.get('term', ';') == ';':
                    out.append(strays[k[0] % len(strays)])
                    k[0] += 1
            return out
        return walk(doc)
    return st.builds(lambda d, s: add_stray(fix(d), s), GC.documents(True), st.lists(stray, min_size=1, max_size=4))


def shard_random(ctx, shard, nshards, n):
    ctx.run_hypothesis('html', GH.documents(False, 18).map(lambda d: {'doc': d}), n, seed_key=shard)
    ctx.run_hypothesis('css', css_documents().map(lambda d: {'doc': d}), n, seed_key=100 + shard)
    ctx.run_hypothesis('css-bare', bare_documents(), n, seed_key=200 + shard)


def run(ctx):
    ctx.run_parallel('shard_random', extra=(ctx.pick(12, 300),))
