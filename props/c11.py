"C11 — extract finds exactly the abbreviation that ends at the caret"
import re
import os
from hypothesis import strategies as st
from vlib import core, abbr_model as M, abbr_gen as G, css_model as C, alphabets as A
from vlib.core import guard
from emmet import extract, expand

PROP_ID = 'C11'
RULE = ("consistency: case = (line ≤ 80 characters over the markup alphabet + `< > & ; ,` + letters/non-ASCII, options type markup/stylesheet × lookAhead on/off × prefix ∈ "
        "{'', `<`, `>>>`, `&&`, `→`}); EVERY caret −2..len+2. Oracle: None, or abbreviation == line[location:end], 0 ≤ start ≤ location ≤ end ≤ len, no leading > + ^ *, "
        "prefix found at start with the abbreviation to its right (start == location without prefix), end == clamped caret (lookAhead off) or caret advanced over at most "
        "one quote and then only closing brackets of the type. Exhaustive layer: every line ≤ 4 over a 16-symbol alphabet × every caret × 4 option sets. "
        "round trip: case = (valid abbreviation: serialised G1 script with ASCII names, bracket-balanced payloads, or G5 stylesheet abbreviation; left context ∈ start of "
        "line / blank / tab / word+blank / complete tags `<div>` `<p class=\"a\">` `</b>` `<br/>` `<a href=x>` `<img src=a.png>` `<div data-a=1>` / non-ASCII word+blank / `= ` / "
        "`{ ` / `return `; right context ∈ end / blank+word / `<` / `</p>` / auto-closed tail). Oracle: extract at the abbreviation's end (or before its auto-closed tail "
        "of one quote + closing brackets) returns exactly the embedded abbreviation at its offset — also behind a configured prefix (`<`, `>>>`, `&&`, `→`, and the non-palindromes `<%`, `e:`, `->`) glued to arbitrary text; "
        "the abbreviation is first confirmed to expand. "
        "Non-trivial: round-trip case whose abbreviation has `>` after an attribute set/repeater/text or whose left context is a tag; distinct by case.")
ASSUME = ["payloads inside [..] keep all three bracket kinds balanced and payloads inside {..} keep braces balanced and unescaped (the backward scanner documents that it respects all characters inside attribute sets or text nodes by bracket counting, not by quote/escape parsing)",
          "element names are ASCII; blanks, quotes, `=` and `,` occur only inside brackets; stylesheet abbreviations contain no function calls"]

PREFIXES = ['', '<', '>>>', '&&', '→', '<%', 'e:', '->']


def check_consistency(case, rec, distinct=False):
    line, opts = case['line'], case['opts']
    n = len(line)
    typ = opts.get('type', 'markup')
    prefix = opts.get('prefix', '')
    look = opts.get('lookAhead', True)
    closers = ')' if typ == 'stylesheet' else ')]}'
    any_result = False
    for pos in list(range(-2, n + 3)) + [None]:
        rec.evals()
        try:
            with guard():
                r = extract(line, pos, dict(opts))
        except Exception as e:
            rec.fail(core.exc_bucket(e), 'line %r pos %r opts %r: %s: %s' % (line, pos, opts, type(e).__name__, e))
            return
        if r is None:
            continue
        any_result = True
        a, loc, s, e = r.abbreviation, r.location, r.start, r.end
        where = 'line %r pos %r opts %r → %r' % (line, pos, opts, r)
        if not all(isinstance(x, int) for x in (loc, s, e)) or not (0 <= s <= loc <= e <= n):
            rec.fail('extract:offset-order', where)
            return
        if a != line[loc:e]:
            rec.fail('extract:abbreviation!=slice', where + ' but line[location:end] = %r' % line[loc:e])
            return
        if a[:1] and a[0] in '>+^*':
            rec.fail('extract:leading-operator', where)
            return
        if prefix:
            if line[s:s + len(prefix)] != prefix or loc < s + len(prefix):
                rec.fail('extract:prefix', where)
                return
        elif s != loc:
            rec.fail('extract:start!=location', where)
            return
        caret = n if pos is None else min(n, max(0, pos))
        if not look:
            exp_end = caret
        else:
            exp_end = caret
            if exp_end < n and line[exp_end] in '"\'':
                exp_end += 1
            while exp_end < n and line[exp_end] in closers:
                exp_end += 1
        if e != exp_end:
            rec.fail('extract:end', where + ', expected end %d' % exp_end)
            return
    if any_result:
        rec.nontrivial(distinct=distinct)


def check_consistency_x(case, rec):
    check_consistency(case, rec, True)


LEFT = ['', ' ', '\t', 'foo ', '<div>', '<p class="a">', '</b>', '<br/>', '<a href=x>', '<img src=a.png>', '<div data-a=1>', 'héllo ', 'x = ', '{ ', 'return ', '<ul>\t', '<a href="#" title=\'t\'>',
        '<input disabled>', '<x-y a:b=c-d>', '<img alt="it\'s"/>', '<a onclick="go(\'x\')" disabled>', '<input value=\'say "hi"\' name=q>', '<a onclick=go()>', '<div data={x}>', '<li class=item[1]>', '<p id=main title=f(1)>', '<a title="x\\"y">', "<p data-x='it\\'s'>"]
RIGHT = ['', ' bar', '<', '</p>', ' ', '</div> text']
CSS_LEFT = ['', ' ', '\t', '{ ', 'color: red; ', 'a {\t', '} ']
CSS_RIGHT = ['', ' ', ';', '}', ' }']


def check_roundtrip(case, rec):
    abbr, left, right, typ, tail = case['abbr'], case['left'], case['right'], case['type'], case.get('tail', 0)
    # the abbreviation must be one the library expands (domain check, not an oracle)
    try:
        with guard():
            # (maxRepeat 1: whether the text is an abbreviation does not depend on how many copies its repeaters make, and unrolling
            # `*12` nested five deep is minutes of work that says nothing about extraction)
            expand(abbr, {'type': typ} if typ == 'stylesheet' else {'maxRepeat': 1})
    except Exception:
        rec.skip('abbreviation-does-not-expand')
        return
    prefix = case.get('prefix', '')
    if prefix and prefix in (abbr + right):
        # with the `prefix` option the abbreviation starts after the NEAREST occurrence of the prefix before the caret; an abbreviation that spells
        # the prefix itself (`.$@->.a` spells `->`) is therefore cut there by design — outside the round-trip domain (a thorough run reported
        # exactly this as roundtrip:cut-short: a false alarm of the generator, corrected here)
        rec.skip('abbreviation-contains-the-prefix')
        return
    line = left + prefix + abbr + right
    pos = len(left) + len(prefix) + len(abbr) - tail
    rec.evals()
    nt = bool(re.search(r'[\]\}\)\d]>', abbr)) or left.endswith('>')
    if nt:
        rec.nontrivial()
    if left.endswith('>'):
        rec.cls('left-context-is-a-tag')
    if tail:
        rec.cls('caret-before-auto-closed-tail')
    rec.cls('type-' + typ)
    try:
        with guard():
            r = extract(line, pos, dict({'type': typ}, **({'prefix': prefix} if prefix else {})))
    except Exception as e:
        rec.fail(core.exc_bucket(e), 'line %r pos %d: %s: %s' % (line, pos, type(e).__name__, e))
        return
    want = (abbr, len(left) + len(prefix), len(left), len(left) + len(prefix) + len(abbr))
    if prefix:
        rec.cls('with-prefix')
    got = (r.abbreviation, r.location, r.start, r.end) if r else None
    if got != want:
        kind = 'cut-short' if (r and abbr.endswith(r.abbreviation) and r.end == want[3]) else 'other'
        rec.fail('roundtrip:' + kind, 'line %r caret %d (type %s)\n expected %r\n got      %r' % (line, pos, typ, want, got))


CHECKS = {'consistency': check_consistency, 'consistency-x': check_consistency_x, 'roundtrip': check_roundtrip}
SHRINK = {'consistency', 'consistency-x'}

SMALL = list('a1.>+*[](){}"\' <')


def shard_exhaustive(ctx, shard, nshards, maxlen):
    optsets = [{'type': 'markup'}, {'type': 'stylesheet'}, {'type': 'markup', 'lookAhead': False}, {'type': 'markup', 'prefix': '<'}]
    for s in core.sharded(core.all_strings(SMALL, maxlen), shard, nshards):
        for o in optsets:
            ctx.rec.run_case(CHECKS, 'consistency-x', {'line': s, 'opts': o})


def consistency_strategy():
    alpha = A.MARKUP + list('<>&;,bcdxyz') + ['é', '→', '\t']
    opts = st.builds(lambda t, l, p: dict({'type': t, 'lookAhead': l}, **({'prefix': p} if p else {})), st.sampled_from(['markup', 'stylesheet']), st.booleans(), st.sampled_from(PREFIXES))
    frag = st.sampled_from(['ul>li', '<div>', '</p>', 'a[href="x"]', '{txt}', '(a+b)*2', '>>>', '&&', '→', '<a href=x>', 'p.c#i', '"]', '})', ' ', 'm10-20', '#fc0', '<', '>'])
    line = st.one_of(st.text(alphabet=alpha, max_size=40), st.lists(st.one_of(frag, st.text(alphabet=alpha, max_size=4)), max_size=8).map(''.join))
    return st.builds(lambda l, o: {'line': l[:80], 'opts': o}, line, opts)


P_RT = G.P(names=['div', 'ul', 'li', 'p', 'a', 'x1', 'sec', 'h1', 'x-y', 'ns:el', 'span', 'em'], nameless=0.15, mentions='simple', text=0.25, text_kind='simple', text_only=0.05,
           groups=0.15, max_items=6, max_depth=2, rep=0.3, rep_max=12, sc=0.05, counters=True, counter_forms='all', max_nodes=10 ** 6)


def rich_mentions(sc, picks):
    "replace some mentions by richer, bracket-balanced attribute sets and texts (model-independent text level)"
    k = [0]
    ATTRS = [['a', 'title', 'dq', ['a b'], False], ['a', 'href', 'raw', ['x>y'], False], ['a', 'data-a', 'sq', ['(1)[2]{3}'], False], ['a', 'onclick', 'dq', ['f(a > b)'], False],
             ['a', 't', 'expr', ['x > 1'], False], ['a', 'd', 'bool', None, True], ['a', 'u', 'none', None, True], ['a', 'v', 'raw', ['a=b'], True]]
    TEXTS = [['Hello world'], ['a > b'], ['x ', ['b', ['y']], ' z'], ['] ) "'], ['T'], ['see [1'], ['( [ <b>']]

    def walk(s):
        for it in s:
            if isinstance(it, dict):
                if 'g' in it:
                    walk(it['g'])
                else:
                    k[0] += 1
                    p = picks[k[0] % len(picks)] if picks else 0
                    if p % 3 == 1:
                        it['m'] = (it.get('m') or []) + [list(ATTRS[p % len(ATTRS)]), list(ATTRS[(p // 3) % len(ATTRS)])]
                    if p % 4 == 2 and not it.get('sc'):
                        it['x'] = list(TEXTS[p % len(TEXTS)])
        return s
    return walk(sc)


def tail_len(abbr):
    "length of the auto-closed tail: at most one quote followed by closing brackets, at the very end"
    m = re.search(r'''["']?[\]\}\)]+$''', abbr)
    return len(m.group(0)) if m else 0


def roundtrip_strategy():
    def mk(sc, picks, left, right, use_tail, prefix):
        abbr = M.ser_script(rich_mentions(sc, picks))
        t = tail_len(abbr) if use_tail else 0
        d = {'abbr': abbr, 'left': left, 'right': right if not t else '', 'type': 'markup', 'tail': t}
        if prefix:
            # with a prefix the left context may be anything, also text glued to the prefix
            d['prefix'] = prefix
        elif left in ('foo', 'a.b>c', 'x{y}'):
            d['left'] = left + ' '
        return d
    markup = st.builds(mk, G.scripts(P_RT), st.lists(st.integers(0, 47), max_size=6), st.sampled_from(LEFT + ['foo', 'a.b>c', 'x{y}']), st.sampled_from(RIGHT), st.booleans(),
                       st.sampled_from(['', '', '', ''] + PREFIXES))
    num = st.builds(lambda n, u, neg: {'k': 'num', 'neg': neg and n != '0', 'w': n, 'u': u}, st.sampled_from(['0', '1', '10', '.5', '1.5', '100']), st.sampled_from(['', 'p', 'px', 'e', '%']), st.booleans())
    col = st.builds(lambda h, a: {'k': 'col', 'hex': h, 'alpha': a}, st.sampled_from(['f', 'fc0', 'e7bc0b', '0', 'a1']), st.sampled_from([None, '.5']))
    prop = st.builds(lambda k, vs, imp: {'key': k, 'vals': vs, 'imp': imp}, st.sampled_from(['m', 'p', 'c', 'bg', 'bd', 'fz', 'lh', 'pos', 'd']), st.lists(st.one_of(num, num, col), max_size=3), st.booleans())
    css = st.builds(lambda ps, l, r: {'abbr': C.ser(ps), 'left': l, 'right': r, 'type': 'stylesheet', 'tail': 0}, st.lists(prop, min_size=1, max_size=3), st.sampled_from(CSS_LEFT), st.sampled_from(CSS_RIGHT))
    return st.one_of(markup, markup, markup, css)


FIXED_RT = [{'abbr': a, 'left': l, 'right': '', 'type': 'markup', 'tail': 0} for a in
            ['li[title=x]*3>a', 'p>h1', 'ul>li.item$*4>a{Item $}', 'a[href=x]>b', 'div[a=1 b=2]>p', 'x1[t=a.png]*2>x2', 'input[type=text]/+p>em', 'p[title=x]{t}>a', 'a[b=c]^d>e']
            for l in ['', ' ', '<div data-a=1>', '<img src=a.png>', '<a href=x>', 'foo ']]


def shard_random(ctx, shard, nshards, n):
    ctx.run_hypothesis('consistency', consistency_strategy(), n, seed_key=shard)
    ctx.run_hypothesis('roundtrip', roundtrip_strategy(), n * 4, seed_key=100 + shard)


def run(ctx):
    L = ctx.pick(4, 5)
    ctx.run_parallel('shard_exhaustive', extra=(L,))
    ctx.exhaustive('every line of length ≤ %d over the 16-symbol alphabet %r × every caret −2..len+2 and None × 4 option sets (consistency)' % (L, ''.join(SMALL)))
    ctx.run_cases('roundtrip', FIXED_RT)
    ctx.run_parallel('shard_random', extra=(ctx.pick(150, 2000),))
    if ctx.thorough or os.environ.get('VERIF_FUZZ'):
        ctx.run_atheris('consistency', ctx.pick(3000, 40000))


# coverage-guided layer (thorough tier), consistency clause: byte 0 = type / lookAhead / prefix, the rest is the line
# (every caret −2..len+2 and None is tried by the check function itself)
def _fz_cons(data):
    if not data:
        return None
    from vlib.fuzz import text_of
    b = data[0]
    opts = {'type': 'stylesheet' if b & 1 else 'markup', 'lookAhead': not (b & 2)}
    p = PREFIXES[(b >> 2) % len(PREFIXES)]
    if p:
        opts['prefix'] = p
    return {'line': text_of(data[1:])[:80], 'opts': opts}


def _fz_cons_seeds():
    for i, l in enumerate(['<div>ul>li*3', 'a[href="x"]{txt}', 'foo >>>p.c#i', '<a href=x>b+i', 'x = (a+b)*2"]', 'm10-20', 'c#fc0', '<p class="a">em{t})']):
        yield bytes([i * 4 % 256]) + l.encode('utf-8')


FUZZ = {'consistency': {'decode': _fz_cons, 'seeds': _fz_cons_seeds, 'max_len': 40, 'dict': ['<div>', '</p>', '="', '>>>', '&&', '<%', 'e:', '->', '"]', '})', '[a=', '{t}']}}
