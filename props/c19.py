"C19 — math expressions evaluate to their arithmetic value; errors and extract() are well-behaved"
import itertools
from fractions import Fraction
import os
from hypothesis import strategies as st
from vlib import core, alphabets as A, math_model as M
from vlib.core import guard
from emmet.math_expression import evaluate, extract, MathExpressionException

PROP_ID = 'C19'
RULE = ("evaluate: case = expression text. Layers: every token sequence up to a bound over {2, 7, .5, 10, + - * / \\ ( )} joined "
        "without and with blanks (exhaustive), every string ≤ 5 over `12.+-*/\\() a` (exhaustive), every sequence of ≤ 5 (7) pieces over {(1) () ( ) 2 + - *} (exhaustive), Hypothesis piece soups ≤ 12, Hypothesis expression trees of depth ≤ 6 "
        "serialised with random blanks/redundant parentheses/stacked signs, Hypothesis strings ≤ 30. Oracle: reference recursive-descent "
        "parser implementing the stated precedence + exact Fraction evaluation with a rigorous forward error bound for binary64; cases where "
        "a floor() sits within that bound of a discontinuity, and unparenthesised chains mixing \\ with * or /, are skipped and counted. "
        "Invalid texts may only raise MathExpressionException/ZeroDivisionError; texts with foreign characters, a trailing binary operator, "
        "unbalanced parentheses (either way) or a decimal point with no digit on either side must raise MathExpressionException; `12.` before a non-digit must raise or be read as 12 (never dropped). extract: every string ≤ 5 over `1.+() a]` × every position × 3 option sets + "
        "random texts with embedded expressions; oracle = range/charset/balance/end-position predicate. "
        "Non-trivial (evaluate): valid expression with ≥ 2 binary operators of different precedence or a unary sign directly after an operator; "
        "(extract) a non-None result. Distinct by text (and position/options).")
ASSUME = ["binary64 evaluation error is bounded by standard forward error analysis (unit round-off 2^-52, ×16 safety)",
          "numbers are written as digits, digits.digits or .digits (`1.` is not a number in this grammar)"]

SPACES = ' \t\xa0\n\r'
OKCH = set('0123456789.+-*/\\()') | set(SPACES)


def nontrivial_expr(toks):
    ops = [v for k, v in toks if k == 'o']
    prec = set()
    prev = None
    unary_after_op = False
    for k, v in toks:
        if k == 'o' and v in '+-' and (prev is None or (prev[0] == 'o' and prev[1] != ')')):
            if prev is not None and prev[1] in '+-*/\\':
                unary_after_op = True
        elif k == 'o' and v in '+-':
            prec.add(1)
        elif k == 'o' and v in '*/\\':
            prec.add(2)
        prev = (k, v)
    return len(prec) >= 2 or unary_after_op


def check_eval(case, rec, distinct=False):
    text = case['expr']
    rec.evals()
    ref = M.reference(text)
    try:
        with guard():
            got = evaluate(text)
        exc = None
    except (MathExpressionException, ZeroDivisionError) as e:
        got, exc = None, e
    except Exception as e:
        rec.fail(core.exc_bucket(e, 'exc:evaluate'), '%s: %s' % (type(e).__name__, e))
        return
    kind = ref[0]
    rec.cls('ref-' + kind)
    if kind == 'value':
        toks = M.tokenize(text)
        if nontrivial_expr(toks):
            rec.nontrivial(distinct=distinct)
        if exc is not None:
            rec.fail('valid-expression-raises:' + type(exc).__name__, 'reference value %s, evaluate raised %s: %s' % (ref[1], type(exc).__name__, exc))
            return
        if not isinstance(got, (int, float)) or isinstance(got, bool) or got != got:
            rec.fail('value-type', 'evaluate returned %r' % (got,))
            return
        v, e = ref[1], ref[2]
        tol = max(16 * e, Fraction(1, 10 ** 9) * max(1, abs(v)))
        try:
            d = abs(Fraction(got) - v)
        except (OverflowError, ValueError):
            rec.fail('value-wrong', 'expected %s, got %r' % (float(v), got))
            return
        if d > tol:
            rec.fail('value-wrong', 'expected %s (=%s), got %r' % (v, float(v), got))
    elif kind == 'zero':
        if exc is None or not isinstance(exc, ZeroDivisionError):
            rec.fail('zero-division-not-raised', 'exact division by zero; evaluate gave %r / %r' % (got, exc))
    elif kind == 'invalid':
        # decimal digits of other scripts (`٣`, `߀`): whether they are "digits" is not stated; only the exception-type clause applies to them
        must = any(c not in OKCH and not (c.isdecimal() and not c.isascii()) for c in text)
        st_ = text.rstrip(SPACES)
        toks = M.tokenize(text)
        stray = False
        if toks:
            d = 0
            for k, v in toks:
                d += (v == '(') - (v == ')')
                if d < 0:
                    stray = True
        if toks:
            if toks[-1][0] == 'o' and toks[-1][1] in '+-*/\\':
                must = True
            # unbalanced parentheses, either way: more `(` than `)` at the end, or a `)` with nothing open
            if stray or sum(v == '(' for k, v in toks) > sum(v == ')' for k, v in toks):
                must = True
        # a decimal point with no digit on either side is no token of the grammar at all
        digits = '0123456789'
        # (decimal digits of other scripts count as digits here: whether they are is not stated, so nothing is demanded of texts that need them)
        lone = any(c == '.' and (i == 0 or not text[i - 1].isdecimal()) and (i + 1 >= len(text) or not text[i + 1].isdecimal()) for i, c in enumerate(text))
        if lone:
            must = True
        if must and not isinstance(exc, MathExpressionException):
            rec.fail('malformed-accepted', 'malformed input evaluated to %r (%r)' % (got, exc))
            return
        # `12.` followed by no digit: not a number of the grammar; should an implementation read it leniently as 12 the value must be the one
        # arithmetic gives with that reading — silently dropping characters is not covered by either reading
        trailing = [i for i, c in enumerate(text) if c == '.' and i > 0 and text[i - 1] in digits and (i + 1 >= len(text) or text[i + 1] not in digits)]
        if trailing and exc is None and all(c in OKCH for c in text):
            lenient = ''.join(c for i, c in enumerate(text) if i not in trailing)
            r2 = M.reference(lenient)
            if r2[0] == 'value':
                v, e = r2[1], r2[2]
                tol = max(16 * e, Fraction(1, 10 ** 9) * max(1, abs(v)))
                try:
                    bad = abs(Fraction(got) - v) > tol
                except (OverflowError, ValueError, TypeError):
                    bad = True
                if bad:
                    rec.fail('malformed-accepted:characters-dropped', 'text %r is malformed (digits followed by a bare decimal point); evaluate returned %r, which is not even the value %s of the lenient reading %r' % (text, got, float(v), lenient))
    # excluded / unstable: only the exception-type clause (already enforced above)


def check_eval_x(case, rec):
    check_eval(case, rec, True)


def check_extract(case, rec, distinct=False):
    text, pos, opt = case['text'], case['pos'], case['opt']
    rec.evals()
    try:
        with guard():
            r = extract(text, pos, dict(opt) if opt is not None else None)
    except Exception as e:
        rec.fail(core.exc_bucket(e, 'exc:extract'), '%s: %s' % (type(e).__name__, e))
        return
    if r is None:
        rec.cls('extract-none')
        return
    rec.cls('extract-range')
    rec.nontrivial(distinct=distinct)
    if not (isinstance(r, tuple) and len(r) == 2 and all(isinstance(x, int) for x in r)):
        rec.fail('extract-type', 'returned %r' % (r,))
        return
    a, b = r
    n = len(text)
    if not (0 <= a <= b <= n):
        rec.fail('extract-range-order', 'range %r for text of length %d' % (r, n))
        return
    o = {'lookAhead': True, 'whitespace': True}
    o.update(opt or {})
    p = n if pos is None else pos
    end = p
    if o['lookAhead'] and p < n and text[p] == ')':
        end = p + 1
        while end < n and (text[end] == ')' or (o['whitespace'] and text[end] in SPACES)):
            end += 1
    if b != end:
        rec.fail('extract-end', 'end %d, expected look-ahead adjusted position %d' % (b, end))
    sub = text[a:b]
    bad = [c for c in sub if c not in OKCH and not c.isdecimal()]
    if bad:
        rec.fail('extract-charset', 'slice %r contains %r' % (sub, bad[:3]))
    if not o['whitespace'] and any(c in SPACES for c in sub):
        rec.fail('extract-whitespace', 'whitespace disabled but slice is %r' % sub)
    d = 0
    for c in sub:
        if c == '(':
            d += 1
        elif c == ')':
            d -= 1
            if d < 0:
                break
    if d != 0:
        rec.fail('extract-balance', 'unbalanced parentheses in %r' % sub)


def check_extract_x(case, rec):
    check_extract(case, rec, True)


SHRINK = {'eval', 'eval-x'}
CHECKS = {'eval': check_eval, 'eval-x': check_eval_x, 'extract': check_extract, 'extract-x': check_extract_x}

TOKS = ['2', '7', '.5', '10', '+', '-', '*', '/', '\\', '(', ')']
OPTS = [None, {'lookAhead': False}, {'whitespace': False}]


def join_tokens(seq, sep):
    out = []
    prev_num = False
    for t in seq:
        num = t[0] in '0123456789.'
        if out and (sep or (num and prev_num)):
            out.append(sep or ' ')
        out.append(t)
        prev_num = num
    return ''.join(out)


def shard_tokens(ctx, shard, nshards, maxtok):
    def gen():
        k = 0
        for L in range(1, maxtok + 1):
            for seq in itertools.product(TOKS, repeat=L):
                k += 1
                if k % nshards != shard:
                    continue
                yield {'expr': join_tokens(seq, '')}
                if k % 5 == 0:
                    yield {'expr': join_tokens(seq, ' ')}
    ctx.run_cases('eval-x', gen())


PIECES = ['(1)', '()', '(', ')', '2', '+', '-', '*']


def shard_pieces(ctx, shard, nshards, maxlen):
    "parenthesis-heavy malformed texts: every sequence of ≤ maxlen pieces (a parenthesised number, an empty pair, single parentheses, a number, three operators)"
    def gen():
        k = 0
        for L in range(1, maxlen + 1):
            for seq in itertools.product(PIECES, repeat=L):
                k += 1
                if k % nshards == shard:
                    yield {'expr': ''.join(seq)}
    ctx.run_cases('eval', gen())


def shard_strings(ctx, shard, nshards, maxlen):
    ctx.run_cases('eval', ({'expr': s} for s in core.sharded(core.all_strings(A.MATH, maxlen), shard, nshards)))


def shard_extract(ctx, shard, nshards, maxlen):
    def gen():
        for s in core.sharded(core.all_strings(list("1.+() a]"), maxlen), shard, nshards):
            for pos in range(len(s) + 1):
                for opt in OPTS:
                    yield {'text': s, 'pos': pos, 'opt': opt}
    ctx.run_cases('extract-x', gen())


# ---- random expression trees, serialised as text
def expr_strategy():
    num = st.one_of(st.integers(0, 999).map(str),
                    st.builds(lambda a, b: '%d.%s' % (a, b), st.integers(0, 99), st.text('0123456789', min_size=1, max_size=2)),
                    st.text('0123456789', min_size=1, max_size=2).map(lambda d: '.' + d),
                    st.sampled_from(['0', '1', '2', '3', '10', '0.5']))
    sp = st.sampled_from(['', '', ' ', '  ', '\t'])

    def binop(children):
        return st.builds(lambda a, op, b, s1, s2: ('bin', op, a, b, s1, s2), children, st.sampled_from(['+', '-', '*', '/', '\\', '+', '-', '*']), children, sp, sp)

    def unop(children):
        return st.builds(lambda s, a: ('un', s, a), st.sampled_from(['-', '+', '--', '-+', '+-', '- -']), children)

    def paren(children):
        return st.builds(lambda a, s: ('par', a, s), children, sp)

    tree = st.recursive(num.map(lambda n: ('num', n)), lambda ch: st.one_of(binop(ch), binop(ch), unop(ch), paren(ch)), max_leaves=14)
    return tree.map(lambda t: {'expr': ser(t, 0)})


PREC = {'+': 1, '-': 1, '*': 2, '/': 2, '\\': 2}


def ser(t, ctx_prec, right=False):
    """text of tree t so that the *statement's* grammar re-parses it to the same tree: parentheses are added exactly where
    precedence/left-associativity require them (so unparenthesised chains, climbs in precedence and signs after operators all occur)"""
    k = t[0]
    if k == 'num':
        return t[1]
    if k == 'par':
        return '(' + t[2] + ser(t[1], 0) + t[2] + ')'
    if k == 'un':
        inner = ser(t[2], 3)
        return t[1] + inner
    _, op, a, b, s1, s2 = t
    p = PREC[op]
    s = ser(a, p) + s1 + op + s2 + ser(b, p, True)
    if p < ctx_prec or (p == ctx_prec and right):
        return '(' + s + ')'
    return s


def shard_random(ctx, shard, nshards, n):
    ctx.run_hypothesis('eval', expr_strategy(), n, seed_key=shard)


def extract_strategy():
    exprs = st.sampled_from(['1+2', '(1+2)*3', '2 * (3 + 1)', '-5', '.5\\2', '10/4', '((1))', '1.5.5', '3 -', '()', '1 + (2', '2)*3', ' 1 ', '1 + 2'])
    junk = st.text(alphabet=list('ab =,;x(){}[]') + [' ', '\t', '\n', '1', '.', '+', ')'], max_size=8)
    def build(l, e, r, data_pos, opt):
        text = l + e + r
        pos = min(len(text), max(0, len(l) + len(e) + data_pos))
        return {'text': text, 'pos': pos, 'opt': opt}
    return st.builds(build, junk, exprs, junk, st.integers(-3, 4), st.sampled_from(OPTS + [{'lookAhead': False, 'whitespace': False}]))


def run(ctx):
    core.run_corpus  # corpus already replayed by run.py
    T = ctx.pick(5, 7)
    ctx.run_parallel('shard_tokens', extra=(T,))
    ctx.exhaustive('every sequence of ≤ %d tokens over %s (joined tightly; every 5th also blank-separated)' % (T, ' '.join(TOKS)))
    L = ctx.pick(5, 6)
    ctx.run_parallel('shard_strings', extra=(L,))
    ctx.exhaustive('every string of length ≤ %d over the 12-character alphabet `12.+-*/\\() a` (evaluate)' % L)
    Pn = ctx.pick(5, 7)
    ctx.run_parallel('shard_pieces', extra=(Pn,))
    ctx.exhaustive('every sequence of ≤ %d pieces over %s (evaluate; parenthesis-heavy malformed texts)' % (Pn, ' '.join(PIECES)))
    E = ctx.pick(5, 6)
    ctx.run_parallel('shard_extract', extra=(E,))
    ctx.exhaustive('every string of length ≤ %d over `1.+() a]` × every position × {default, lookAhead off, whitespace off} (extract)' % E)
    # characters that str.isdigit()/isnumeric() accept but that are no decimal digits (superscripts, circled digits), and decimal digits of other
    # scripts: nothing but the parse error may escape, and extract() must not report them as part of an expression
    DL = ['1', '²', '①', '٣', '+', '(', ')', ' ', '.']
    ctx.run_cases('eval', ({'expr': t} for t in core.all_strings(DL, 4) if any(ord(c) > 127 for c in t)))
    ctx.run_cases('extract', ({'text': t, 'pos': p, 'opt': None} for t in core.all_strings(DL, 3) if any(ord(c) > 127 for c in t) for p in range(len(t) + 1)))
    ctx.exhaustive('every string of length ≤ 4 (evaluate) / ≤ 3 × every position (extract) over `1 ² ① ٣ + ( ) space .` that contains a non-ASCII digit-like character')
    ctx.run_parallel('shard_random', extra=(ctx.pick(1500, 20000),))
    ctx.run_hypothesis('eval', st.text(alphabet=A.MATH + ['3', '0', '\t'], max_size=30).map(lambda s: {'expr': s}), ctx.pick(2000, 30000))
    soup = st.lists(st.sampled_from(['1', '2', '.5', '10', '(1)', '(2)', '()', '(', ')', ')(', '+', '-', '*', '/', '\\', ' ', '.']), min_size=1, max_size=12).map(lambda l: {'expr': ''.join(l)})
    ctx.run_hypothesis('eval', soup, ctx.pick(2000, 30000), seed_key=77)
    ctx.run_hypothesis('extract', extract_strategy(), ctx.pick(3000, 50000))
    if ctx.thorough or os.environ.get('VERIF_FUZZ'):
        ctx.run_atheris('eval', ctx.pick(10000, 200000))
        ctx.run_atheris('extract', ctx.pick(10000, 200000))


# coverage-guided layer (thorough tier). eval: all bytes are the text; extract: byte 0 = option set, byte 1 = position (mod len+1)
def _fz_eval(data):
    from vlib.fuzz import text_of
    return {'expr': text_of(data)}


def _fz_extract(data):
    if len(data) < 2:
        return None
    from vlib.fuzz import text_of
    opts = OPTS + [{'lookAhead': False, 'whitespace': False}]
    text = text_of(data[2:])
    return {'text': text, 'pos': data[1] % (len(text) + 1), 'opt': opts[data[0] % len(opts)]}


_FZ_EXPRS = ['1+2', '(1+2)*3', '2 * (3 + 1)', '-5', '.5\\2', '10/4', '((1))', '1 - -2', '7\\2*3', '3.25*(2-0.5)/4']
FUZZ = {'eval': {'decode': _fz_eval, 'seeds': lambda: [e.encode() for e in _FZ_EXPRS], 'max_len': 24, 'dict': ['(', ')', '\\', '.5', ' - ', '*', '/']},
        'extract': {'decode': _fz_extract, 'seeds': lambda: [bytes([i % 4, len(e) + 4]) + b'foo ' + e.encode() + b') x' for i, e in enumerate(_FZ_EXPRS)],
                    'max_len': 28, 'dict': ['(', ')', '\\', '.5', ' ']}}
