"C08 — expansion is a pure function of its arguments"
import copy, gc, sys, types
from hypothesis import strategies as st
from vlib import core
from vlib.core import guard
import emmet
from emmet import expand
from emmet.config import Config

PROP_ID = 'C08'
RULE = ("case = history: a pool of caller-owned config dicts (markup and stylesheet; options, string/list wrap text, user snippets incl. one that fails to parse, "
        "variables, context, BEM), 0–2 shared cache dicts, and 3–25 steps `expand(abbreviation, config i)` made either with the caller's dict or with one persistent Config "
        "object per config, optionally through a shared cache, incl. calls that raise in the parser and calls that raise inside snippet resolution. Oracle: (i) every "
        "result (string, or exception type + message) equals the FRESH result of the same call — emmet's modules are purged from sys.modules and re-imported, the arguments "
        "rebuilt from the pristine recipe, no cache; (ii) after every step each caller-owned dict deep-equals its pristine recipe (key set included); (iii) at the end of "
        "the history, with caches cleared and gc.collect(), the number of live instances of classes defined in emmet.* (beyond the Config objects the caller holds) and the "
        "len() of every module-level / function-default container in emmet.* equal the warmed-up baseline. Exhaustive layer: every ordered pair and selected triples of "
        "24 (abbreviation, config, mode, cache) steps. Non-trivial: history with a failing call followed by a succeeding one on the same config, a cache shared by "
        "configs with differing options/snippets, or ≥ 2 BEM calls; distinct by history.")
ASSUME = ["`lorem` is not used (its randomness is the only documented impurity)",
          "instance counting sees emmet-defined class instances and module-level/default-argument containers, not interned strings or C-level state"]

ABBRS_M = ['doc', 'ul>li*2', 'ul>li*', 'p{$#}*', 'a', 'a[href=x]{t}', 'div.b_m>.-e', 'ul.nav>.-item*2>._active', 'div.b>div.-e>div.-e', 'bad', 'bad2>p', 'x1+bad', 'a[', 'p{', '(a',
           'foo', 'foo.a.b', 'p{${v}}', 'vare>p', 'tm', '!', 'table>.r>.c', 'ul>li.i$*3', 'a:link', 'select>.o', 'ul>li*5', 'x1*4>x2*2', '', '()', '()*3', '(())',
           'x1>.c', 'em>.a', 'sec>#i>.k', 'x1>{[$#]}', 'p']
ABBRS_C = ['zq', 'zr', '@kf', 'bg:al', 'bg-be', 'bgx', 'lis:da', 'lis:d', 'ol:da', 'ol:d', 'ov:ma', 'ov:m', 'm10', 'p10-20', 'm', 'p', 'bd', 'c#fc0', 'fz1.5', 'lh2', 'z10', 'm10+p', 'bad', 'xx', 'm-a', 'pos:a', 'trf:rx', 'w100p', 'mah', 'p!', '(', 'm10-', 'trf-s(2, 3)', 'trf-s(1)', 'trf-s', 'trf:r(45deg)', 'trf:r']

CFG_M = [
    {},
    {'text': 'wrapped'},
    {'text': ['one', '', 'two']},
    {'options': {'bem.enabled': True}},
    {'options': {'bem.enabled': True, 'comment.enabled': True}, 'context': {'name': 'div', 'attributes': {'class': 'ctx'}}},
    {'snippets': {'bad': 'a[', 'bad2': 'p{', 'foo': 'p+span'}},
    {'snippets': {'bad': 'a[', 'foo': 'ul>li*2'}, 'text': 'T'},
    {'snippets': {'bad': '(x', 'foo': 'foo.c'}, 'text': ['l1', 'l2'], 'options': {'bem.enabled': True}},
    {'syntax': 'xsl', 'options': {'comment.enabled': True}},
    {'syntax': 'pug', 'variables': {'v': 'V1'}},
    {'syntax': 'jsx', 'variables': {'v': 'V2'}, 'options': {'output.format': False}},
    {'maxRepeat': 2, 'text': ['a', 'b', 'c']},
    {'maxRepeat': 1},
    {'options': {'output.format': False, 'output.tagCase': 'upper'}},
    {'variables': {'lang': 'de'}},
    {'variables': {'lang': 'fr', 'charset': 'koi8-r'}, 'options': {'output.format': False}},
    {'options': {'inlineElements': ['x1', 'em', 'sec']}},
    {'options': {'inlineElements': []}},
    {'text': ['  first line', '    second line  ']},
]
CFG_C = [
    {'type': 'stylesheet'},
    {'type': 'stylesheet', 'options': {'stylesheet.intUnit': 'pt', 'stylesheet.floatUnit': 'rem'}},
    {'type': 'stylesheet', 'syntax': 'stylus', 'options': {'stylesheet.intUnit': 'em'}},
    {'type': 'stylesheet', 'snippets': {'m': 'margin:5|10', 'xx': 'x-prop:1 2', 'bad': 'y-prop:('}},
    {'type': 'stylesheet', 'snippets': {'m': 'max-width:3', 'p': 'pad-x:7'}, 'options': {'stylesheet.intUnit': 'vh'}},
    {'type': 'stylesheet', 'options': {'stylesheet.unitless': ['margin', 'padding'], 'stylesheet.shortHex': False}},
    {'type': 'stylesheet', 'context': {'name': 'margin'}},
    {'type': 'stylesheet', 'syntax': 'sass', 'options': {'stylesheet.unitAliases': {'p': 'pc'}}},
    {'type': 'stylesheet', 'snippets': {'m': 'max-width:3', 'p': 'pad-x:7'}, 'options': {'stylesheet.intUnit': 'pt'}},
    {'type': 'stylesheet', 'snippets': {'m': 'max-width:3', 'p': 'pad-x:7'}, 'options': {'stylesheet.floatUnit': 'ex'}},
    {'type': 'stylesheet', 'snippets': {'bgx': 'background-extra:alpha|beta'}},
]

_TAB_A = {'zq': 'zoom-quality:high|low', 'zr': '@zr-rule ${1} {}'}
_TAB_B = {'zq': '@zq-rule ${1} {}', 'zr': 'zoom-range:1|2'}
CFG_S = [
    {'type': 'stylesheet', 'context': {'name': '@@section'}, 'snippets': _TAB_A},
    {'type': 'stylesheet', 'context': {'name': '@@section'}, 'snippets': _TAB_B},
    {'type': 'stylesheet', 'context': {'name': '@@property'}, 'snippets': _TAB_A},
    {'type': 'stylesheet', 'context': {'name': '@@property'}, 'snippets': _TAB_B},
    {'type': 'stylesheet', 'context': {'name': '@@section'}},
    {'type': 'stylesheet', 'context': {'name': '@@property'}},
    {'type': 'stylesheet', 'snippets': _TAB_A},
]

_fresh = {}


def fresh_result(abbr, recipe):
    "result of expand(abbr, recipe) in a freshly imported emmet (module-level state, function defaults and caches all new); memoised"
    key = core.canon([abbr, recipe])
    if key in _fresh:
        return _fresh[key]
    saved = {k: sys.modules.pop(k) for k in list(sys.modules) if k == 'emmet' or k.startswith('emmet.')}
    try:
        import importlib
        E = importlib.import_module('emmet')
        try:
            res = ('ok', E.expand(abbr, copy.deepcopy(recipe)))
        except Exception as e:
            res = ('exc', type(e).__name__, str(getattr(e, 'message', e)))
    finally:
        for k in [k for k in sys.modules if k == 'emmet' or k.startswith('emmet.')]:
            del sys.modules[k]
        sys.modules.update(saved)
    _fresh[key] = res
    return res


def emmet_modules():
    return [m for n, m in sys.modules.items() if (n == 'emmet' or n.startswith('emmet.')) and isinstance(m, types.ModuleType)]


def container_sizes():
    out = {}
    for m in emmet_modules():
        for name, v in vars(m).items():
            if name.startswith('__'):
                continue
            if isinstance(v, (dict, list, set)):
                out['%s.%s' % (m.__name__, name)] = len(v)
            elif isinstance(v, types.FunctionType) and v.__module__ == m.__name__:
                for i, d in enumerate(v.__defaults__ or ()):
                    if isinstance(d, (dict, list, set)):
                        out['%s.%s.__defaults__[%d]' % (m.__name__, name, i)] = len(d)
                for k, d in (v.__kwdefaults__ or {}).items():
                    if isinstance(d, (dict, list, set)):
                        out['%s.%s.__kwdefaults__[%s]' % (m.__name__, name, k)] = len(d)
            elif isinstance(v, type) and v.__module__ == m.__name__:
                for an, av in vars(v).items():
                    if isinstance(av, (dict, list, set)) and not an.startswith('__'):
                        out['%s.%s.%s' % (m.__name__, name, an)] = len(av)
    return out


def live_instances():
    gc.collect()
    n = {}
    for o in gc.get_objects():
        t = type(o)
        mod = getattr(t, '__module__', '') or ''
        if mod == 'emmet' or mod.startswith('emmet.'):
            n[t.__name__] = n.get(t.__name__, 0) + 1
    return n


_baseline = {}


def baseline():
    if not _baseline:
        # warm up every code path once so that lazily created module state (compiled regexes, etc.) exists
        for a in ABBRS_M[:8]:
            for c in CFG_M[:5]:
                try:
                    expand(a, copy.deepcopy(c))
                except Exception:
                    pass
        for a in ABBRS_C[:8]:
            for c in CFG_C[:3]:
                try:
                    expand(a, copy.deepcopy(c))
                except Exception:
                    pass
        _baseline['sizes'] = container_sizes()
        _baseline['live'] = live_instances()
    return _baseline


def describe(step, cfgs):
    if step.get('op') == 'mutate':
        return 'caller sets cfg#%d[%r] = %r' % (step['cfg'], step['key'], step['value'])
    return 'expand(%r, cfg#%d=%r via %s%s)' % (step['abbr'], step['cfg'], cfgs[step['cfg']], step['via'], ', cache#%d' % step['cache'] if step.get('cache') is not None else '')


def check_history(case, rec):
    cfgs, steps = case['cfgs'], case['steps']
    baseline()
    # state just before this history (so that a leak is attributed to the history that causes it)
    base = {'sizes': container_sizes(), 'live': live_instances()}
    caches = [dict() for _ in range(case.get('ncaches', 0))]
    owned = [copy.deepcopy(c) for c in cfgs]           # caller-owned dicts, reused for the whole history
    pristine = [copy.deepcopy(c) for c in cfgs]
    # a config is bound to at most one cache for the whole history (the cache is part of the caller's dict)
    bound = {}
    for s in steps:
        if s.get('op') != 'mutate' and s.get('cache') is not None and s['cfg'] not in bound:
            bound[s['cfg']] = s['cache']
    for i, k in bound.items():
        owned[i]['cache'] = caches[k]
    objs = {}
    failed_on = set()
    nt = False
    bem_calls = 0
    cache_users = {}
    for i, k in bound.items():
        cache_users.setdefault(k, set()).add(core.canon({x: cfgs[i].get(x) for x in ('options', 'snippets', 'syntax')}))
    if any(len(v) > 1 for v in cache_users.values()):
        nt = True
        rec.cls('cache-shared-across-differing-configs')
    for n, s in enumerate(steps):
        i = s['cfg']
        if s.get('op') == 'mutate':
            # the caller edits their own dict between calls: later calls must follow the new content (a Config object is a snapshot: rebuilt)
            for d in (owned[i], pristine[i]):
                if s['key'] == 'text':
                    d['text'] = s['value']
                else:
                    d.setdefault('options', {})[s['key']] = s['value']
            objs.pop(i, None)
            rec.cls('caller-edits-config-between-calls')
            continue
        recipe = pristine[i]
        want = fresh_result(s['abbr'], recipe)
        rec.evals()
        try:
            with guard():
                if s['via'] == 'Config':
                    if i not in objs:
                        objs[i] = Config(owned[i])
                    got = ('ok', expand(s['abbr'], objs[i]))
                else:
                    got = ('ok', expand(s['abbr'], owned[i]))
        except Exception as e:
            got = ('exc', type(e).__name__, str(getattr(e, 'message', e)))
        if (cfgs[i].get('options') or {}).get('bem.enabled'):
            bem_calls += 1
        if got[0] == 'exc':
            failed_on.add(i)
        elif i in failed_on:
            nt = True
            rec.cls('success-after-failure-on-same-config')
        if got != want:
            hist = '; '.join(describe(x, cfgs) for x in steps[:n + 1])
            shared = s.get('cache') is not None or i in bound
            kind = 'with-cache' if shared else ('after-failure' if i in failed_on else 'plain')
            rec.fail('result-depends-on-history:' + kind, 'step %d %s\n fresh interpreter gives %r\n this history gives  %r\n history: %s' % (n, describe(s, cfgs), want, got, hist))
            return
        for j in range(len(cfgs)):
            cur = {k: v for k, v in owned[j].items() if k != 'cache'}
            if cur != pristine[j]:
                rec.fail('caller-config-modified', 'after step %d %s the caller\'s config #%d is %r, was %r' % (n, describe(s, cfgs), j, cur, pristine[j]))
                return
    if bem_calls >= 2:
        nt = True
        rec.cls('two-or-more-BEM-calls')
    if nt:
        rec.nontrivial()
    # ---- leak check
    for c in caches:
        c.clear()
    sizes = container_sizes()
    grown = {k: (base['sizes'].get(k), v) for k, v in sizes.items() if v != base['sizes'].get(k, v if k not in base['sizes'] else None) and k in base['sizes']}
    if grown:
        rec.fail('state-kept-alive:container', 'module-level / default-argument containers changed size: %r' % grown)
        return
    live = live_instances()
    held = {'Config': len(objs)}
    extra = {k: v - base['live'].get(k, 0) - held.get(k, 0) for k, v in live.items() if v - base['live'].get(k, 0) - held.get(k, 0) > 0}
    if extra:
        rec.fail('state-kept-alive:instances', 'live emmet objects beyond the baseline after the history (caches cleared, gc.collect()): %r' % extra)


CHECKS = {'history': check_history}


def step_strategy(ncfg_m, ncfg_c, ncaches):
    def mk(is_css, ai, ci, via, cache):
        if is_css:
            return {'abbr': ABBRS_C[ai % len(ABBRS_C)], 'cfg': ncfg_m + (ci % ncfg_c), 'via': via, 'cache': (cache % ncaches) if (ncaches and cache is not None) else None}
        # markup calls go through the shared caches as well (a cache is part of any caller's config, whatever the type)
        return {'abbr': ABBRS_M[ai % len(ABBRS_M)], 'cfg': ci % ncfg_m, 'via': via, 'cache': (cache % ncaches) if (ncaches and cache is not None) else None}
    return st.builds(mk, st.booleans(), st.integers(0, 40), st.integers(0, 12), st.sampled_from(['dict', 'dict', 'Config']), st.one_of(st.none(), st.integers(0, 3)))


@st.composite
def history(draw):
    ms = draw(st.lists(st.sampled_from(range(len(CFG_M))), min_size=1, max_size=4, unique=True))
    cs = draw(st.lists(st.sampled_from(range(len(CFG_C) + len(CFG_S))), min_size=1, max_size=3, unique=True))
    cfgs = [CFG_M[i] for i in ms] + [(CFG_C + CFG_S)[i] for i in cs]
    ncaches = draw(st.integers(0, 2))
    mut = st.builds(lambda ci, kv: {'op': 'mutate', 'cfg': ci % len(ms), 'key': kv[0], 'value': kv[1]}, st.integers(0, 8),
                    st.sampled_from([('output.format', False), ('output.format', True), ('output.tagCase', 'upper'), ('text', 'changed'), ('text', ['x', 'y']), ('output.selfClosingStyle', 'xhtml')]))
    steps = draw(st.lists(st.one_of(step_strategy(len(ms), len(cs), ncaches), step_strategy(len(ms), len(cs), ncaches), step_strategy(len(ms), len(cs), ncaches), mut), min_size=3, max_size=25))
    return {'cfgs': cfgs, 'ncaches': ncaches, 'steps': steps}


def pair_cases():
    "every ordered pair of a fixed family of steps (same or different config), plus failing-then-succeeding triples"
    fam_m = [(a, c) for a in ('ul>li*', 'bad', 'a[', 'div.b_m>.-e', 'foo.a.b', 'ul>li*5', '', '()') for c in (1, 2, 3, 5, 6, 7, 12)]
    for (a1, c1) in fam_m:
        for (a2, c2) in fam_m:
            cfgs = [CFG_M[c1]] + ([CFG_M[c2]] if c2 != c1 else [])
            j = 0 if c2 == c1 else 1
            for via in ('dict', 'Config'):
                yield {'cfgs': cfgs, 'ncaches': 0, 'steps': [{'abbr': a1, 'cfg': 0, 'via': via, 'cache': None}, {'abbr': a2, 'cfg': j, 'via': via, 'cache': None},
                                                              {'abbr': a1, 'cfg': 0, 'via': 'dict', 'cache': None}]}
    fam_c = [(a, c) for a in ('m10', 'm', 'p', 'xx', 'fz1.5') for c in range(10)]
    for (a1, c1) in fam_c:
        for (a2, c2) in fam_c:
            if c1 == c2:
                continue
            for shared in (True, False):
                yield {'cfgs': [CFG_C[c1], CFG_C[c2]], 'ncaches': 1 if shared else 0,
                       'steps': [{'abbr': a1, 'cfg': 0, 'via': 'dict', 'cache': 0 if shared else None}, {'abbr': a2, 'cfg': 1, 'via': 'dict', 'cache': 0 if shared else None},
                                 {'abbr': a1, 'cfg': 0, 'via': 'dict', 'cache': 0 if shared else None}]}


    # snippet bodies that use variables (`!`, `doc`: ${lang}, ${charset}) under configs that give those variables different values
    fam_v = [(a, c) for a in ('!', 'doc', 'p{${v}}') for c in (0, 9, 14, 15)]
    for (a1, c1) in fam_v:
        for (a2, c2) in fam_v:
            cfgs = [CFG_M[c1]] + ([CFG_M[c2]] if c2 != c1 else [])
            j = 0 if c2 == c1 else 1
            yield {'cfgs': cfgs, 'ncaches': 0, 'steps': [{'abbr': a1, 'cfg': 0, 'via': 'dict', 'cache': None}, {'abbr': a2, 'cfg': j, 'via': 'dict', 'cache': None},
                                                          {'abbr': a1, 'cfg': 0, 'via': 'Config', 'cache': None}]}
    # one stylesheet config, one cache shared by all three calls: every ordered pair of the stylesheet abbreviation pool (tokens of the cached
    # snippet table must not be altered by what one abbreviation writes into them — function-call arguments, units, colours)
    for a1 in ABBRS_C:
        for a2 in ABBRS_C:
            if a1 != a2:
                yield {'cfgs': [CFG_C[0]], 'ncaches': 1, 'steps': [{'abbr': a1, 'cfg': 0, 'via': 'dict', 'cache': 0}, {'abbr': a2, 'cfg': 0, 'via': 'dict', 'cache': 0},
                                                                   {'abbr': a1, 'cfg': 0, 'via': 'dict', 'cache': 0}]}


    # the same variable-dependent snippet bodies through ONE cache shared by markup configs whose variables / snippets / maxRepeat differ
    # (added after seeded change C08-10: parsed snippet trees memoised in the cache under the snippet source only)
    fam_mc = [(a, c) for a in ('!', 'doc', 'foo', 'foo.a.b', 'ul>li*5', 'a') for c in (0, 5, 6, 9, 12, 14, 15)]
    for (a1, c1) in fam_mc:
        for (a2, c2) in fam_mc:
            if c1 == c2:
                continue
            yield {'cfgs': [CFG_M[c1], CFG_M[c2]], 'ncaches': 1, 'steps': [{'abbr': a1, 'cfg': 0, 'via': 'dict', 'cache': 0}, {'abbr': a2, 'cfg': 1, 'via': 'dict', 'cache': 0},
                                                                         {'abbr': a1, 'cfg': 0, 'via': 'dict', 'cache': 0}]}
    # scoped stylesheet calls (`@@section` keeps raw snippets, `@@property` keeps property snippets) through one cache shared by configs whose
    # snippet tables define the same keys differently (added after seeded change C08-9: per-scope subsets kept in the cache were never dropped)
    fam_s = [(a, c) for a in ('zq', 'zr', 'm', '@kf') for c in range(len(CFG_S))]
    for (a1, c1) in fam_s:
        for (a2, c2) in fam_s:
            if c1 == c2:
                continue
            yield {'cfgs': [CFG_S[c1], CFG_S[c2]], 'ncaches': 1, 'steps': [{'abbr': a1, 'cfg': 0, 'via': 'dict', 'cache': 0}, {'abbr': a2, 'cfg': 1, 'via': 'dict', 'cache': 0},
                                                                         {'abbr': a1, 'cfg': 0, 'via': 'dict', 'cache': 0}]}


    # no cache at all: a keyword of a user snippet that nests under a shipped shorthand (`bgx` → background) must not be resolvable by a later
    # call that does not carry that table; an implicit tag name under a parent whose inline-ness differs between the calls' `inlineElements`
    # (added after seeded changes C08-11/-12: memoised snippet objects mutated by nest(), ELEMENT_MAP written at run time)
    fam_k = [(a, c) for a in ('bg:al', 'bg-be', 'bgx', 'bg') for c in (0, len(CFG_C) - 1)]
    for (a1, c1) in fam_k:
        for (a2, c2) in fam_k:
            cfgs = [CFG_C[c1]] + ([CFG_C[c2]] if c2 != c1 else [])
            j = 0 if c2 == c1 else 1
            yield {'cfgs': cfgs, 'ncaches': 0, 'steps': [{'abbr': a1, 'cfg': 0, 'via': 'dict', 'cache': None}, {'abbr': a2, 'cfg': j, 'via': 'dict', 'cache': None},
                                                          {'abbr': a1, 'cfg': 0, 'via': 'dict', 'cache': None}]}
    fam_i = [(a, c) for a in ('x1>.c', 'em>.a', 'sec>#i>.k') for c in (0, len(CFG_M) - 3, len(CFG_M) - 2)]
    for (a1, c1) in fam_i:
        for (a2, c2) in fam_i:
            cfgs = [CFG_M[c1]] + ([CFG_M[c2]] if c2 != c1 else [])
            j = 0 if c2 == c1 else 1
            yield {'cfgs': cfgs, 'ncaches': 0, 'steps': [{'abbr': a1, 'cfg': 0, 'via': 'dict', 'cache': None}, {'abbr': a2, 'cfg': j, 'via': 'dict', 'cache': None},
                                                          {'abbr': a1, 'cfg': 0, 'via': 'dict', 'cache': None}]}


    # wrap lines with edge blanks and no blank line, pulled by position in one call and inserted whole in another (added after seeded change
    # C08-13: the caller's own list trimmed in place through an aliased copy)
    fam_t = ('ul>li*', 'p{$#}*', 'p', 'x1>{[$#]}')
    for a1 in fam_t:
        for a2 in fam_t:
            for via in ('dict', 'Config'):
                yield {'cfgs': [CFG_M[-1]], 'ncaches': 0, 'steps': [{'abbr': a1, 'cfg': 0, 'via': via, 'cache': None}, {'abbr': a2, 'cfg': 0, 'via': via, 'cache': None},
                                                                     {'abbr': a1, 'cfg': 0, 'via': 'dict', 'cache': None}]}


def shard_pairs(ctx, shard, nshards):
    for case in core.sharded(pair_cases(), shard, nshards):
        ctx.rec.run_case(CHECKS, 'history', case)


def shard_random(ctx, shard, nshards, n):
    ctx.run_hypothesis('history', history(), n, seed_key=shard)


def run(ctx):
    ctx.run_parallel('shard_pairs')
    ctx.exhaustive('every ordered pair (then the first call again) of 36 markup steps × dict/Config and of 48 stylesheet steps with and without a shared cache; every ordered pair of the %d stylesheet abbreviations on one config with one shared cache' % len(ABBRS_C))
    ctx.run_parallel('shard_random', extra=(ctx.pick(40, 600),))
