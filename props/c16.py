"C16 — scanners and matchers are total and report only well-formed ranges"
import os
from hypothesis import strategies as st
from vlib import core, alphabets as A
from vlib.core import guard
from emmet.html_matcher import match as hmatch, balanced_outward as hout, balanced_inward as hin
from emmet.html_matcher.scan import scan as hscan
from emmet.html_matcher.attributes import attributes as hattrs
from emmet.css_matcher import match as cmatch, balanced_outward as cout, balanced_inward as cin
from emmet.css_matcher.scan import scan as cscan
from emmet.css_matcher.parse import split_value

PROP_ID = 'C16'
RULE = ("case = (language, source string[, xml flag]); every position −1..len+1 is tried (for sources > 80 chars a deterministic subset). "
        "Layers: every string over the 17-symbol HTML / 19-symbol CSS punctuation alphabet up to a length bound (exhaustive), every attribute fragment ≤ 5 (6) over the symbols { [ ( < * # a blank double-quote single-quote = } for the attribute parser (exhaustive), Hypothesis strings "
        "≤ 40 over the alphabets + multi-character tokens (comments, CDATA, PI, script/style, url(, #{ …), ≤3-edit mutants and all truncations "
        "of valid documents (repo samples, generated documents). Oracle: no exception, CPU watchdog quiet, every reported range 0 ≤ start ≤ end ≤ len; "
        "HTML scan tags start with `<`, end with `>`, carry their name after `<`/`</`, increasing and non-overlapping; HTML match == "
        "balanced_outward[0]; outward entries strictly nested and strictly containing pos; inward entries nested; attribute and value-token "
        "ranges slice to the reported text. Non-trivial: some function reported ≥ 1 range for the source; distinct by (language, source).")
ASSUME = ["positions are integers in −1..len+1 (the quantifier's range)",
          "css delimiter argument is a position or −1 (absent)"]


def positions(n):
    if n <= 80:
        return range(-1, n + 2)
    step = max(1, n // 60)
    ps = set(range(-1, n + 2, step)) | {-1, 0, 1, n - 1, n, n + 1}
    return sorted(ps)


def ok_range(a, b, n):
    return isinstance(a, int) and isinstance(b, int) and 0 <= a <= b <= n


def check_html(case, rec, distinct=False):
    src = case['src']
    opt = {'xml': True} if case.get('xml') else None
    n = len(src)
    reported = 0
    # ---- scan
    tags = []
    try:
        with guard():
            hscan(src, lambda name, typ, start, end: tags.append((name, typ, start, end)), {'style': None, 'script': ['', 'text/javascript']})
    except Exception as e:
        rec.fail(core.exc_bucket(e, 'exc:html.scan'), '%s: %s' % (type(e).__name__, e))
    rec.evals()
    prev_end = 0
    for name, typ, a, b in tags:
        reported += 1
        if not ok_range(a, b, n):
            rec.fail('html.scan:range', 'tag %r range (%r, %r) outside 0..%d' % (name, a, b, n))
            break
        sl = src[a:b]
        pre = '</' if typ == 2 else '<'
        if not sl.startswith(pre + name) or not sl.endswith('>') or not name:
            rec.fail('html.scan:tag-shape', 'tag %r type %r slice %r' % (name, typ, sl))
            break
        if a < prev_end:
            rec.fail('html.scan:order', 'tag %r at %d overlaps previous tag ending at %d' % (name, a, prev_end))
            break
        prev_end = b
    # ---- attributes (fragment form and open-tag form)
    try:
        with guard():
            at = hattrs(src)
        rec.evals()
        for t in at:
            reported += 1
            if not ok_range(t.name_start, t.name_end, n) or src[t.name_start:t.name_end] != t.name:
                rec.fail('html.attributes:name-range', 'name %r range (%r,%r)' % (t.name, t.name_start, t.name_end))
                break
            if t.value is not None:
                if not ok_range(t.value_start, t.value_end, n) or src[t.value_start:t.value_end] != t.value or t.value_start < t.name_end:
                    rec.fail('html.attributes:value-range', 'value %r range (%r,%r)' % (t.value, t.value_start, t.value_end))
                    break
            elif t.value_start is not None or t.value_end is not None:
                rec.fail('html.attributes:value-range', 'no value but offsets (%r,%r)' % (t.value_start, t.value_end))
                break
    except Exception as e:
        rec.fail(core.exc_bucket(e, 'exc:html.attributes'), '%s: %s' % (type(e).__name__, e))
    # ---- matchers at every position
    for pos in positions(n):
        try:
            with guard():
                m = hmatch(src, pos, opt)
                out = hout(src, pos, opt)
                inw = hin(src, pos, opt)
        except Exception as e:
            rec.fail(core.exc_bucket(e, 'exc:html.match'), 'pos %d: %s: %s' % (pos, type(e).__name__, e))
            continue
        rec.evals(3)
        fails = []

        def full(t):
            return (t.open[0], (t.close or t.open)[1])

        def well(t, what):
            rs = [t.open] + ([t.close] if t.close else [])
            for a, b in rs:
                if not ok_range(a, b, n) or a == b:
                    fails.append((what + ':range', 'pos %d: %s range (%r,%r) outside 0..%d' % (pos, t.name, a, b, n)))
                    return False
                if src[a] != '<' or src[b - 1] != '>':
                    fails.append((what + ':tag-shape', 'pos %d: range (%d,%d) slices to %r' % (pos, a, b, src[a:b])))
                    return False
            if t.close and not (t.open[1] <= t.close[0]):
                fails.append((what + ':range', 'pos %d: close %r before open %r' % (pos, t.close, t.open)))
                return False
            if not src[t.open[0] + 1:].startswith(t.name) or (t.close and not src[t.close[0] + 2:].startswith(t.name)):
                fails.append((what + ':tag-shape', 'pos %d: name %r not at tag start' % (pos, t.name)))
                return False
            return True

        good = True
        if m is not None:
            reported += 1
            good = well(m, 'html.match')
            if good:
                for t in m.attributes:
                    if not ok_range(t.name_start, t.name_end, n) or src[t.name_start:t.name_end] != t.name or \
                            (t.value is not None and (not ok_range(t.value_start, t.value_end, n) or src[t.value_start:t.value_end] != t.value)):
                        fails.append(('html.match:attribute-range', 'pos %d: attribute %r=%r offsets do not slice to it' % (pos, t.name, t.value)))
                        break
                    if not (m.open[0] < t.name_start and (t.value_end if t.value is not None else t.name_end) < m.open[1]):
                        fails.append(('html.match:attribute-range', 'pos %d: attribute %r outside the open tag %r' % (pos, t.name, m.open)))
                        break
        for t in out:
            reported += 1
            good = well(t, 'html.outward') and good
        for t in inw:
            reported += 1
            good = well(t, 'html.inward') and good
        if good:
            if (m is None) != (not out):
                fails.append(('html.match!=outward[0]', 'pos %d: match=%r outward=%r' % (pos, m and (m.name, m.open, m.close), [(t.name, t.open, t.close) for t in out][:2])))
            elif m is not None and (m.name, tuple(m.open), m.close and tuple(m.close)) != (out[0].name, tuple(out[0].open), out[0].close and tuple(out[0].close)):
                fails.append(('html.match!=outward[0]', 'pos %d: match=%r outward[0]=%r' % (pos, (m.name, m.open, m.close), (out[0].name, out[0].open, out[0].close))))
            prev = None
            for t in out:
                a, b = full(t)
                if not (a < pos < b):
                    fails.append(('html.outward:contains-pos', 'pos %d not strictly inside (%d,%d)' % (pos, a, b)))
                    break
                if prev is not None and not (a < prev[0] and prev[1] < b):
                    fails.append(('html.outward:nesting', 'pos %d: (%d,%d) does not strictly contain previous %r' % (pos, a, b, prev)))
                    break
                prev = (a, b)
            prev = None
            for t in inw:
                a, b = full(t)
                if prev is not None and not (prev[0] <= a and b <= prev[1]):
                    fails.append(('html.inward:nesting', 'pos %d: (%d,%d) not inside previous %r' % (pos, a, b, prev)))
                    break
                prev = (a, b)
        for f in fails[:3]:
            rec.fail(*f)
        if fails:
            break
    if reported:
        rec.nontrivial(distinct=distinct)
        rec.cls('html-reported')
    else:
        rec.cls('html-silent')


def check_css(case, rec, distinct=False):
    src = case['src']
    n = len(src)
    reported = 0
    toks = []
    try:
        with guard():
            cscan(src, lambda typ, start, end, delim: toks.append((typ, start, end, delim)))
    except Exception as e:
        rec.fail(core.exc_bucket(e, 'exc:css.scan'), '%s: %s' % (type(e).__name__, e))
    rec.evals()
    for typ, a, b, d in toks:
        reported += 1
        if not ok_range(a, b, n):
            rec.fail('css.scan:range:' + str(typ), 'token %s range (%r,%r) outside 0..%d' % (typ, a, b, n))
            break
        if not isinstance(d, int) or not (-1 <= d <= n):
            rec.fail('css.scan:delimiter:' + str(typ), 'token %s delimiter %r outside -1..%d' % (typ, d, n))
            break
    try:
        with guard():
            sv = split_value(src)
            sv2 = split_value(src, 7)
        rec.evals(2)
        prev = 0
        for a, b in sv:
            reported += 1
            if not ok_range(a, b, n) or a == b or a < prev:
                rec.fail('css.split_value:range', 'token (%r,%r) in %r (previous end %d)' % (a, b, sv, prev))
                break
            prev = b
        if [(a + 7, b + 7) for a, b in sv] != list(sv2):
            rec.fail('css.split_value:offset', 'offset 7 gives %r, offset 0 gives %r' % (sv2, sv))
    except Exception as e:
        rec.fail(core.exc_bucket(e, 'exc:css.split_value'), '%s: %s' % (type(e).__name__, e))
    for pos in positions(n):
        fails = []
        try:
            with guard():
                m = cmatch(src, pos)
        except Exception as e:
            fails.append((core.exc_bucket(e, 'exc:css.match'), 'pos %d: %s: %s' % (pos, type(e).__name__, e)))
            m = None
        try:
            with guard():
                out = cout(src, pos)
        except Exception as e:
            fails.append((core.exc_bucket(e, 'exc:css.outward'), 'pos %d: %s: %s' % (pos, type(e).__name__, e)))
            out = []
        try:
            with guard():
                inw = cin(src, pos)
        except Exception as e:
            fails.append((core.exc_bucket(e, 'exc:css.inward'), 'pos %d: %s: %s' % (pos, type(e).__name__, e)))
            inw = []
        rec.evals(3)
        if m is not None:
            reported += 1
            if not ok_range(m.start, m.end, n) or not ok_range(m.body_start, m.body_end, n):
                fails.append(('css.match:range:' + str(m.type), 'pos %d: %r' % (pos, m.to_json())))
            elif not (m.start <= m.body_start and m.body_end <= m.end):
                fails.append(('css.match:body-outside:' + str(m.type), 'pos %d: %r' % (pos, m.to_json())))
        for what, lst in (('css.outward', out), ('css.inward', inw)):
            for r in lst:
                reported += 1
                if not (len(r) == 2 and ok_range(r[0], r[1], n)):
                    fails.append((what + ':range', 'pos %d: range %r in %r outside 0..%d' % (pos, tuple(r), [tuple(x) for x in lst], n)))
                    break
        for f in fails[:4]:
            rec.fail(*f)
        if fails:
            break
    if reported:
        rec.nontrivial(distinct=distinct)
        rec.cls('css-reported')
    else:
        rec.cls('css-silent')


def check_html_x(case, rec):
    check_html(case, rec, True)


def check_css_x(case, rec):
    check_css(case, rec, True)


SHRINK = {'html', 'css', 'html-x', 'css-x'}
def check_attrs_x(case, rec):
    "the attribute parser alone, on a fragment over its own alphabet (Angular markers `*` `#`, all bracket kinds, quotes)"
    src = case['src']
    n = len(src)
    rec.evals()
    try:
        with guard():
            at = hattrs(src)
    except Exception as e:
        rec.fail(core.exc_bucket(e, 'exc:html.attributes'), '%s: %s' % (type(e).__name__, e))
        return
    if at:
        rec.nontrivial(distinct=True)
    for t in at:
        if not ok_range(t.name_start, t.name_end, n) or src[t.name_start:t.name_end] != t.name:
            rec.fail('html.attributes:name-range', 'fragment %r: name %r range (%r,%r)' % (src, t.name, t.name_start, t.name_end))
            return
        if t.value is not None:
            if not ok_range(t.value_start, t.value_end, n) or src[t.value_start:t.value_end] != t.value or t.value_start < t.name_end:
                rec.fail('html.attributes:value-range', 'fragment %r: value %r range (%r,%r)' % (src, t.value, t.value_start, t.value_end))
                return
        elif t.value_start is not None or t.value_end is not None:
            rec.fail('html.attributes:value-range', 'fragment %r: no value but offsets (%r,%r)' % (src, t.value_start, t.value_end))
            return


ATTR_ALPHA = list("{[(<*#a \"'=}")


def shard_attr_fragments(ctx, shard, nshards, maxlen):
    ctx.run_cases('attrs-x', ({'src': s} for s in core.sharded(core.all_strings(ATTR_ALPHA, maxlen), shard, nshards)))


# open tags of the "special" elements (script/style: the scanner inspects their `type` attribute before deciding how to read the body):
# every fragment over the pieces of such a tag, alone, closed, and followed by a body and the closing tag
SPECIAL_PIECES = [' ', 'type', '=', '"', "'", 'text/javascript', 'x', '>', '/']


def shard_special_tags(ctx, shard, nshards, maxlen):
    def gen():
        for frag in core.sharded(core.all_strings(SPECIAL_PIECES, maxlen), shard, nshards):
            for name in ('script', 'style'):
                yield {'src': '<%s%s' % (name, frag), 'xml': False}
                yield {'src': '<a><%s %s><b></b></%s></a>' % (name, frag, name), 'xml': False}
        # closing tags of special elements in another letter case, with blanks, or missing (every reported range must still read `</name…>`
        # with the reported name)
        if shard == 0:
            for name in ('script', 'style', 'Script'):
                for closer in ('</%s>' % name.upper(), '</%s>' % name.capitalize(), '</%s >' % name, '</%s' % name, '< /%s>' % name, ''):
                    for body in ('', 'x', '"<b>"', '<p>'):
                        for xml in (False, True):
                            yield {'src': '<a><%s>%s%s<p>t</p></a>' % (name, body, closer), 'xml': xml}
    ctx.run_cases('html-x', gen())


CHECKS = {'html': check_html, 'css': check_css, 'html-x': check_html_x, 'css-x': check_css_x, 'attrs-x': check_attrs_x}

HTML_SEEDS = ['<a><b></b></a>', '<div class="a" id=b><br><img src="x>y"/></div>', '<!-- <a> --><p>t</p>', '<![CDATA[<a>]]><b/>',
              '<?php echo "?>" ?><a></a>', '<script>if (a<b) {}</script><i></i>', '<style type="x">a{}</style>', '<script type="text/x-tpl"><b></b></script>',
              '<a {...p} [x]="1" (y)=\'2\' *z #w d={e>f}></a>', '<ul>\n<li><a href=x>t</a></li>\n<li/></ul>', '<a title="\\"><b></b></a>', '<a b=c/>', '<a\n b\n=\n"c"\n>',
              "<a b='>'>", '<a><a><a></a></a></a>', '<p><br><br/></p>', '</a><a>', '<a></b></a>', '<é:x-1.y _a="1">']
CSS_SEEDS = ['a{b:c;}', 'a { b: c; d: e }', '@media (min-width: 10px) { a:hover { b: c; } }', 'a{b:"}";c:url(x;y)}', '/* { } */ a{b:c}', '$v: 1px; a{--x: {a:b}; c:d}',
             'a::before{content:"\\"";}', 'a{b:c', 'a:{', '{a}', '"\\', '::', '//:\n:) :(', 'a{b{c{d:e}}}', 'a{;;b:c;;}', 'a,b{c:d !important}', '&:hover{a:b}', 'a{b:c}d{e:f}g{h:i}',
             'a{b:url("x\\', "a{b:'c\nd:e}", 'a{b:(c:d)}', '@include x { a: b }', 'a{b: c /* ; */ d;}']


def sample_docs():
    import os
    out_h, out_c = list(HTML_SEEDS), list(CSS_SEEDS)
    ts = A.test_seeds()
    out_h += [s for s in ts['html_doc'] if '<' in s]
    out_c += [s for s in ts['css_doc']]
    for p, lst in (('tests/html_matcher/sample.html', out_h), ('tests/action_utils/sample.html', out_h),
                   ('tests/css_matcher/sample.scss', out_c), ('tests/action_utils/sample.scss', out_c)):
        fp = os.path.join(core.REPO, p)
        if os.path.exists(fp):
            lst.append(open(fp, encoding='utf-8').read())
    return out_h, out_c


def shard_exhaustive(ctx, shard, nshards, lang, maxlen):
    alpha = A.HTML_DOC if lang == 'html' else A.CSS_DOC
    if lang == 'html':
        ctx.run_cases('html-x', ({'src': s, 'xml': False} for s in core.sharded(core.all_strings(alpha, maxlen), shard, nshards)))
    else:
        ctx.run_cases('css-x', ({'src': s} for s in core.sharded(core.all_strings(alpha, maxlen), shard, nshards)))


def shard_mutants(ctx, shard, nshards, n):
    rng = ctx.rng('c16', shard)
    hs, cs = sample_docs()
    def gen():
        for i in range(n):
            if i % 2:
                s = rng.choice(hs)
                if len(s) > 120:
                    a = rng.randrange(len(s) - 100)
                    s = s[a:a + rng.randint(20, 100)]
                s = A.mutate(rng, s, A.HTML_DOC, A.HTML_TOKENS) if rng.random() < 0.8 else s[:rng.randrange(len(s) + 1)]
                yield 'html', {'src': s, 'xml': rng.random() < 0.3}
            else:
                s = rng.choice(cs)
                if len(s) > 120:
                    a = rng.randrange(len(s) - 100)
                    s = s[a:a + rng.randint(20, 100)]
                s = A.mutate(rng, s, A.CSS_DOC, A.CSS_TOKENS) if rng.random() < 0.8 else s[:rng.randrange(len(s) + 1)]
                yield 'css', {'src': s}
    for kind, case in gen():
        ctx.rec.run_case(CHECKS, kind, case)


def shard_truncations(ctx, shard, nshards):
    hs, cs = sample_docs()
    k = 0
    for lang, docs in (('html', hs), ('css', cs)):
        for d in docs:
            for j in range(len(d) + 1):
                k += 1
                if k % nshards != shard:
                    continue
                # truncation from the right, and (for long documents) a window so the work per case stays bounded
                s = d[:j] if j <= 160 else d[j - 160:j]
                ctx.rec.run_case(CHECKS, lang, {'src': s, 'xml': False} if lang == 'html' else {'src': s})


def html_strategy():
    atom = st.one_of(st.sampled_from(A.HTML_DOC), st.sampled_from(A.HTML_DOC), st.sampled_from(A.HTML_TOKENS), st.sampled_from(['<a>', '</a>', '<b ', '/>', '="', "='", '<script>', '</script>', '<style>', '</style>', 'é', '\t']))
    return st.builds(lambda xs, x: {'src': ''.join(xs)[:60], 'xml': x}, st.lists(atom, max_size=24), st.booleans())


def css_strategy():
    atom = st.one_of(st.sampled_from(A.CSS_DOC), st.sampled_from(A.CSS_DOC), st.sampled_from(A.CSS_TOKENS), st.sampled_from(['a{', 'b:c;', '}', ': ', '";', "'", '\\"', 'é', '(', ')']))
    return st.builds(lambda xs: {'src': ''.join(xs)[:60]}, st.lists(atom, max_size=24))


def shard_hyp(ctx, shard, nshards, n):
    ctx.run_hypothesis('html', html_strategy(), n, seed_key=shard)
    ctx.run_hypothesis('css', css_strategy(), n, seed_key=100 + shard)


def run(ctx):
    AL = ctx.pick(5, 6)
    ctx.run_parallel('shard_attr_fragments', extra=(AL,))
    ctx.exhaustive('every attribute fragment of length ≤ %d over %r (attribute parser ranges)' % (AL, ''.join(ATTR_ALPHA)))
    SL = ctx.pick(4, 5)
    ctx.run_parallel('shard_special_tags', extra=(SL,))
    ctx.exhaustive('every sequence of ≤ %d pieces over %r as the attribute part of a <script>/<style> open tag (unterminated, and inside a document with a body and closing tag)' % (SL, SPECIAL_PIECES))
    H = ctx.pick(4, 5)
    ctx.run_parallel('shard_exhaustive', extra=('html', H))
    ctx.exhaustive('every string of length ≤ %d over the HTML alphabet (%d symbols) × every position −1..len+1' % (H, len(A.HTML_DOC)))
    Cn = ctx.pick(4, 5)
    ctx.run_parallel('shard_exhaustive', extra=('css', Cn))
    ctx.exhaustive('every string of length ≤ %d over the CSS alphabet (%d symbols) × every position −1..len+1' % (Cn, len(A.CSS_DOC)))
    ctx.run_parallel('shard_truncations')
    ctx.run_parallel('shard_mutants', extra=(ctx.pick(400, 8000),))
    ctx.run_parallel('shard_hyp', extra=(ctx.pick(150, 4000),))
    if ctx.thorough or os.environ.get('VERIF_FUZZ'):
        ctx.run_atheris('html', ctx.pick(600, 12000))
        ctx.run_atheris('css', ctx.pick(600, 12000))


# coverage-guided layer (thorough tier). html: byte 0 bit 0 = XML mode, the rest is the document; css: all bytes are the document.
# Every position −1..len+1 and every entry point is exercised by the check function itself.
def _fz_html(data):
    if not data:
        return None
    from vlib.fuzz import text_of
    return {'src': text_of(data[1:]), 'xml': bool(data[0] & 1)}


def _fz_css(data):
    from vlib.fuzz import text_of
    return {'src': text_of(data)}


def _fz_html_seeds():
    for i, s in enumerate(sample_docs()[0]):
        if len(s) <= 120:
            yield bytes([i & 1]) + s.encode('utf-8')


def _fz_css_seeds():
    for s in sample_docs()[1]:
        if len(s) <= 120:
            yield s.encode('utf-8')


FUZZ = {'html': {'decode': _fz_html, 'seeds': _fz_html_seeds, 'max_len': 40, 'dict': A.HTML_TOKENS + ['<a>', '</a>', '<b ', '/>', '="', "='", '<script>', '</script>', '<style>', '</style>', '<!--', '-->']},
        'css': {'decode': _fz_css, 'seeds': _fz_css_seeds, 'max_len': 40, 'dict': A.CSS_TOKENS + ['a{', 'b:c;', '/*', '*/', '\\"', 'url(', '@media']}}
