"C07 — expand fails only with its two parse errors, never with an internal error"
import copy, os
from hypothesis import strategies as st
from vlib import core, alphabets as A, cfgs
from vlib.core import guard
import emmet
from emmet import expand
from emmet.scanner import ScannerException
from emmet.token_scanner import TokenScannerException

PROP_ID = 'C07'
RULE = ("case = (abbreviation string, config dict). Layers: every string over the markup alphabet (27 symbols) × 8 fixed "
        "configurations and over the stylesheet alphabet (23 symbols) × 5 configurations up to a length bound (exhaustive); "
        "Hypothesis strings ≤ 60 with random option sets/syntaxes/text payloads/contexts; ≤3-edit mutants and all prefixes of "
        "valid abbreviations. Oracle: result is str, or ScannerException/TokenScannerException with pos None or 0..len(input); "
        "any other exception or a CPU-time watchdog expiry is a violation, bucketed by (exception type, innermost emmet frame). "
        "Non-trivial: length ≥ 2 with ≥ 1 operator/bracket character; distinct by (string, config).")
ASSUME = ["user snippet tables in generated configs are well-formed abbreviations (malformed user snippets are outside C07's domain)",
          "repeat counts are bounded (≤ 3 digits, product ≤ 300) so legitimate work stays far below the 20 s CPU watchdog"]

SYNTAX_CH = set("$#@.*>+^()[]{}'\"=\\/:!,-")


def check_expand(case, rec, distinct=False):
    abbr, cfg = case['abbr'], copy.deepcopy(case['cfg'])
    rec.evals()
    if len(abbr) >= 2 and any(c in SYNTAX_CH for c in abbr):
        rec.nontrivial(distinct=distinct)
    try:
        with guard():
            r = expand(abbr, cfg)
    except (ScannerException, TokenScannerException) as e:
        rec.cls('parse-error')
        pos = getattr(e, 'pos', None)
        if pos is not None and (not isinstance(pos, int) or not (0 <= pos <= len(abbr))):
            rec.fail('errpos:%s@%s' % (type(e).__name__, core.emmet_frame(e)), 'error position %r outside 0..%d' % (pos, len(abbr)))
        return
    except RecursionError as e:
        rec.fail('exc:RecursionError', 'RecursionError')
        return
    except Exception as e:
        rec.fail(core.exc_bucket(e), '%s: %s' % (type(e).__name__, core.short(str(e), 120)))
        return
    if not isinstance(r, str):
        rec.fail('nonstr', 'expand returned %r' % type(r))
    rec.cls('expanded')


def check_expand_x(case, rec):
    check_expand(case, rec, True)


SHRINK = {'expand', 'expand-x'}
CHECKS = {'expand': check_expand, 'expand-x': check_expand_x}


def shard_exhaustive(ctx, shard, nshards, which, maxlen):
    alpha, fixed = (A.MARKUP, cfgs.MARKUP_FIXED) if which == 'markup' else (A.CSS_ABBR, cfgs.CSS_FIXED)
    def gen():
        for s in core.sharded(core.all_strings(alpha, maxlen), shard, nshards):
            for tag, cfg in fixed:
                yield {'abbr': s, 'cfg': cfg}
    ctx.run_cases('expand-x', gen())


def shard_mutants(ctx, shard, nshards, n):
    rng = ctx.rng('c07', shard)
    ts = A.test_seeds()
    mseeds = A.MARKUP_SEEDS + ts['markup']
    cseeds = A.CSS_SEEDS + ts['css']
    def gen():
        for i in range(n):
            if i % 3:
                s = cfgs.bound_repeats(A.mutate(rng, rng.choice(mseeds), A.MARKUP_X))
                yield {'abbr': s, 'cfg': rng.choice(cfgs.MARKUP_FIXED)[1]}
            else:
                s = A.mutate(rng, rng.choice(cseeds), A.CSS_ABBR_X)
                yield {'abbr': s, 'cfg': rng.choice(cfgs.CSS_FIXED)[1]}
    ctx.run_cases('expand', gen())


def shard_prefixes(ctx, shard, nshards):
    ts = A.test_seeds()
    def gen():
        k = 0
        for s in A.MARKUP_SEEDS + ts['markup']:
            for tag, cfg in cfgs.MARKUP_FIXED:
                k += 1
                if k % nshards != shard:
                    continue
                for j in range(len(s) + 1):
                    yield {'abbr': s[:j], 'cfg': cfg}
        for s in A.CSS_SEEDS + ts['css']:
            for tag, cfg in cfgs.CSS_FIXED:
                k += 1
                if k % nshards != shard:
                    continue
                for j in range(len(s) + 1):
                    yield {'abbr': s[:j], 'cfg': cfg}
    ctx.run_cases('expand', gen())


def strategy():
    m = st.builds(lambda s, c: {'abbr': cfgs.bound_repeats(s), 'cfg': c}, st.text(alphabet=A.MARKUP_X, max_size=60), cfgs.markup_config())
    c = st.builds(lambda s, c: {'abbr': s, 'cfg': c}, st.text(alphabet=A.CSS_ABBR_X, max_size=40), cfgs.css_config())
    # structured: concatenation of abbreviation fragments reaches deeper parser states than uniform characters
    frag = st.sampled_from(['a', 'div', 'ul', 'li', 'p', 'lorem', 'lorem2', 'lorem-', '.c', '#i', '[a=b]', '[a="b c"]', "[a='b']", '[a]', '[a.]', '[!a]',
                            '[', ']', '{t}', '{', '}', '{$#}', '$#', '$', '$$@-', '@3', '*2', '*3', '*', '>', '+', '^', '(', ')', '/', '!', ':', '-',
                            '${1}', '${1:x}', '${x}', '\\', '"', "'", '=', ' ', '.', '#', 'x1', 'x2', 'foo', 'A', 'Foo.Bar', '..', '1/2', 'é',
                            '$@^', '$@^^', '$$@^^^', '$@^-2', 'b$@^^*2', 'a*2>', 'li*3>', '(a*2>b*2>'])
    f = st.builds(lambda fs, c: {'abbr': cfgs.bound_repeats(''.join(fs)), 'cfg': c}, st.lists(frag, max_size=14), cfgs.markup_config())
    cfrag = st.sampled_from(['m', 'p', 'bd', 'c', 'bg', 'lg', 'trf', 'animic', 'pos', 'fz', '10', '-', '--', '.5', '1.', '#', '#f', '#fc0', '#t', '.', '!',
                             '+', ':', ',', '(', ')', '"', "'", 'a', 'auto', 'p', 'e', '%', '$v', '@k', '${1}', '${1:x}', ' ', '/', 'xx', 'raw', 'gt', 'é',
                             # function calls as one fragment, so that "call directly followed by a field / variable / number / colour" is reachable
                             'foo(1)', 'calc(1)', 'url(a)', 'rotate(1)', 'f()', 'p:', 'm:', 'trf:', 'bg:', '${a}', '$a'])
    g = st.builds(lambda fs, c: {'abbr': ''.join(fs), 'cfg': c}, st.lists(cfrag, max_size=10), cfgs.css_config())
    # structured stylesheet abbreviations: key, separator, then value atoms of every kind in arbitrary adjacency (number, colour, keyword, function call,
    # field, variable, string, dash, comma, blank, `!`) — adjacency of two different atom kinds is what the value parser/printer special-cases
    catom = st.sampled_from(['10', '-5', '.5', '1.5e', '10p', '0', '#fc0', '#f.5', '#t', 'auto', 'a', 'foo(1)', 'calc(1 + 2)', 'url(a)', 'f()', 'rgb(0,0,0)', 'scale(1, 2)',
                             '${1}', '${1:x}', '${a}', '$a', '"s"', "'t'", '-', '--x', ',', ' ', '!', '@k'])
    ckey = st.sampled_from(['p', 'm', 'bg', 'trf', 'c', 'bd', 'fz', 'lg', 'pos', 'xx', 'anim', 'trf-s', 'gtc', '@kf', 'us'])
    cprop = st.builds(lambda k, sp, at: k + sp + ''.join(at), ckey, st.sampled_from([':', ':', '-', '']), st.lists(catom, max_size=5))
    k = st.builds(lambda ps, c: {'abbr': '+'.join(ps), 'cfg': c}, st.lists(cprop, min_size=1, max_size=3), cfgs.css_config())
    # valid structured abbreviations (G1 model: nested repeaters/groups, counters in every value position, full text and attribute forms),
    # with parent-numbering carets spliced into counters (`$@^`, `$@^^` …) and optionally one character-level mutation
    from vlib import abbr_gen as G, abbr_model as M
    p_full = G.P(counters=True, counter_forms='all', mentions='full', text=0.4, text_kind='full', text_only=0.08, groups=0.2, max_items=6, max_depth=3,
                 rep=0.45, rep_max=3, sc=0.05, nameless=0.2, names=G.NEUTRAL + G.STRUCT + ['a', 'lorem', 'img', 'label', 'input'], placeholders=True, max_nodes=150)
    def splice(sc, carets, mut, cfg):
        t = M.ser_script(sc)
        if carets:
            out, i, k = [], 0, 0
            while i < len(t):
                out.append(t[i])
                if t[i] == '$' and (i + 1 >= len(t) or t[i + 1] != '$') and (i + 1 < len(t) and t[i + 1] not in '#{'):
                    k += 1
                    c = carets[k % len(carets)]
                    if c:
                        if i + 1 < len(t) and t[i + 1] == '@':
                            out.append('@' + '^' * c)
                            i += 1
                        else:
                            out.append('@' + '^' * c)
                i += 1
            t = ''.join(out)
        if mut is not None:
            pos, ch = mut
            pos = pos % (len(t) + 1)
            t = t[:pos] + ch + t[pos:]
        return {'abbr': cfgs.bound_repeats(t), 'cfg': cfg}
    h = st.builds(splice, G.scripts(p_full), st.lists(st.integers(0, 4), max_size=4),
                  st.one_of(st.none(), st.tuples(st.integers(0, 200), st.sampled_from(A.MARKUP))), cfgs.markup_config())
    return st.one_of(m, c, f, g, k, h, h)


def shard_hypothesis(ctx, shard, nshards, n):
    ctx.run_hypothesis('expand', strategy(), n, seed_key=shard)


def run(ctx):
    L = ctx.pick(3, 4)
    ctx.run_parallel('shard_exhaustive', extra=('markup', L))
    ctx.exhaustive('all strings of length ≤ %d over the markup alphabet (27 symbols) × 8 fixed configurations' % L)
    ctx.run_parallel('shard_exhaustive', extra=('css', L))
    ctx.exhaustive('all strings of length ≤ %d over the stylesheet alphabet (23 symbols) × 5 fixed configurations' % L)
    ctx.run_parallel('shard_prefixes')
    ctx.run_parallel('shard_mutants', extra=(ctx.pick(1500, 30000),))
    ctx.run_parallel('shard_hypothesis', extra=(ctx.pick(200, 4000),))
    if ctx.thorough or os.environ.get('VERIF_FUZZ'):
        ctx.run_atheris('expand', ctx.pick(1500, 30000))


# coverage-guided layer (thorough tier): byte 0 selects one of the 13 fixed configurations, the rest is the abbreviation
_FZ_CFGS = [c for _, c in cfgs.MARKUP_FIXED] + [c for _, c in cfgs.CSS_FIXED]


def _fz_decode(data):
    if not data:
        return None
    from vlib.fuzz import text_of
    k = data[0] % len(_FZ_CFGS)
    s = text_of(data[1:])
    return {'abbr': cfgs.bound_repeats(s), 'cfg': _FZ_CFGS[k]}


def _fz_seeds():
    ts = A.test_seeds()
    nm = len(cfgs.MARKUP_FIXED)
    for i, s in enumerate(A.MARKUP_SEEDS + ts['markup']):
        yield bytes([i % nm]) + s.encode('utf-8')
    for i, s in enumerate(A.CSS_SEEDS + ts['css']):
        yield bytes([nm + i % len(cfgs.CSS_FIXED)]) + s.encode('utf-8')


FUZZ = {'expand': {'decode': _fz_decode, 'seeds': _fz_seeds, 'max_len': 48,
                   'dict': ['${1:', '${', '$#', '$@-', '$@^', '*3', '*', 'lorem', '[a="', "='", '{$#}', '!important', '--', '#f', 'ul>', '.c', '(', ')^', '/']}}
