"C15 — HAML, Pug and Slim output has one line per element at its depth"
import re
import os
from hypothesis import strategies as st
from vlib import core, abbr_model as M, abbr_gen as G, outlex as L
from vlib.core import guard
from emmet import expand

PROP_ID = 'C15'
RULE = ("case = (structured script: elements with optional id, classes (no blanks), valued/empty/boolean attributes, single- or multi-line text, self-closing "
        "marks, repeaters, groups; depth ≤ 8, width ≤ 6), syntax ∈ haml/pug/slim, indent ∈ tab/2 blanks/4 blanks/`..`, newline LF/CRLF, baseIndent. "
        "Oracle: the reference tree of the script (same denotation as C01/C02) rendered by the statement's rules — one line per element in document order at "
        "indent × depth, head `name#id.class.class` with the syntax prefix, `div` omitted iff id/class present, the syntax's attribute list, single-line text "
        "after a blank, m > 1 text lines as m lines one level deeper (`| x` for pug/slim, `x |` padded for haml) — compared by exact string equality; and "
        "differentially: the name tree recovered from the indentation equals the tree an independent lexer recovers from the HTML output of the same abbreviation. "
        "Exhaustive layer: every C01 operator skeleton with ≤ 3 elements (groups nested ≤ 2, optional *2) in all three syntaxes. "
        "Non-trivial: depth ≥ 3, or width ≥ 3 with a self-closing/text-only-content element before a sibling; distinct by (script, syntax, options).")
ASSUME = ["ids are written before classes (the statement's `name#id.class` form); `>` after groups/self-closed elements is not generated; text-only items occur only in the dedicated text-parent layer, where the layout of the text itself is not asserted (only that every element keeps its own line at its depth)",
          "attribute values contain no line breaks; names are not snippet keys (`select` neutralised)"]

SYN = {
    'haml': {'beforeName': '%', 'beforeAttribute': '(', 'afterAttribute': ')', 'glue': ' ', 'afterTextLine': ' |', 'beforeTextLine': '', 'booleanValue': 'true', 'selfClose': '/'},
    'pug': {'beforeName': '', 'beforeAttribute': '(', 'afterAttribute': ')', 'glue': ', ', 'afterTextLine': '', 'beforeTextLine': '| ', 'booleanValue': '', 'selfClose': ''},
    'slim': {'beforeName': '', 'beforeAttribute': ' ', 'afterAttribute': '', 'glue': ' ', 'afterTextLine': '', 'beforeTextLine': '| ', 'booleanValue': '', 'selfClose': '/'},
}


def head(n, name, s, o):
    attrs = M.merge_attrs(n.attrs, False)
    primary = [a for a in attrs if a['name'] in ('id', 'class')]
    secondary = [a for a in attrs if a['name'] not in ('id', 'class') and not (a['impl'] and a['vt'] == 'raw' and not a['value'])]
    out = ''
    prim = ''.join(('#' + a['value']) if a['name'] == 'id' else ('.' + re.sub(r'\s+', '.', a['value'])) for a in primary if a['value'] is not None)
    if name != 'div' or not primary:
        out += s['beforeName'] + name
    out += prim
    if secondary:
        parts = []
        for a in secondary:
            is_bool = a['bool'] or a['name'].lower() in M.BOOLEAN_ATTRS
            if is_bool and not a['value']:
                parts.append(a['name'] + ('=' + s['booleanValue'] if s['booleanValue'] else ''))
            else:
                q = ('{', '}') if a['vt'] == 'expr' else ('"', '"')
                parts.append('%s=%s%s%s' % (a['name'], q[0], a['value'] or '', q[1]))
        out += s['beforeAttribute'] + s['glue'].join(parts) + s['afterAttribute']
    return out


def render_indent(nodes, syn, o):
    s = SYN[syn]
    nl = o.get('output.newline', '\n')
    base = o.get('output.baseIndent', '')
    ind = o.get('output.indent', '\t')
    out = []
    first = [True]

    def walk(ns, depth, parent_name):
        for n in ns:
            name = n.name
            if name is None:
                p = (parent_name or '').lower()
                name = M.IMPLICIT.get(p, 'span' if p in M.INLINE else 'div')
            line = head(n, name, s, o)
            if first[0]:
                first[0] = False
                out.append(line)
            else:
                out.append(nl + base + ind * depth + line)
            if n.sc and not n.text and not n.children:
                # (pug marks an empty element with `/` under the xml self-closing style only; haml and slim always)
                out.append('/' if (syn == 'pug' and o.get('output.selfClosingStyle') == 'xml') else s['selfClose'])
            else:
                if n.text or not n.children:
                    txt = M.strip_fields(n.text) if n.text else n.text      # default field callback: a field prints its placeholder
                    lines = re.split(r'\r\n|\r|\n', txt) if txt else ['']
                    # str.splitlines semantics: a trailing line break does not open a new line
                    if txt and len(lines) > 1 and lines[-1] == '':
                        lines = lines[:-1]
                    if len(lines) == 1:
                        out.append(' ' + lines[0])
                    else:
                        mx = max(len(x) for x in lines)
                        for x in lines:
                            out.append(nl + base + ind * (depth + 1) + s['beforeTextLine'] + x + ((' ' * (mx - len(x)) + s['afterTextLine']) if s['afterTextLine'] else ''))
                walk(n.children, depth + 1, name)
    walk(nodes, 0, '')
    return ''.join(out)


def tree_from_indent(text, syn, o):
    "name tree recovered from the indentation alone (element lines only)"
    nl = o.get('output.newline', '\n')
    base = o.get('output.baseIndent', '')
    ind = o.get('output.indent', '\t')
    root = []
    stack = [(-1, root)]
    for i, line in enumerate(text.split(nl)):
        if i > 0:
            if not line.startswith(base):
                return None
            line = line[len(base):]
        d = 0
        while ind and line.startswith(ind):
            line = line[len(ind):]
            d += 1
        body = line
        if syn in ('pug', 'slim') and (body.startswith('| ') or body == '|'):
            continue
        if syn == 'haml' and (body.endswith(' |') or body == '|'):
            continue
        m = re.match(r'^%?([\w:-]*)', body)
        name = m.group(1) if m else ''
        if syn == 'haml' and not body.startswith('%'):
            name = ''
        if not name:
            name = 'div'
        while stack and stack[-1][0] >= d:
            stack.pop()
        node = (name, [])
        stack[-1][1].append(node)
        stack.append((d, node[1]))
    return root


def html_tree(out):
    def conv(nodes):
        return [(n[0], conv(n[2])) for n in nodes]
    return conv(L.tree(L.lex(out)))


def shape(script):
    tree = M.interpret(script)

    def depth(nodes):
        return max([0] + [(0 if 'g' in n.item else 1) + depth(n.children) for n in nodes])

    def leak(nodes):
        for i, n in enumerate(nodes):
            it = n.item
            if 'g' not in it and (it.get('sc') or (it.get('x') and not n.children)) and i + 1 < len(nodes):
                return True
            if leak(n.children):
                return True
        return False

    def width(nodes):
        return max([len(nodes)] + [width(n.children) for n in nodes])
    return depth(tree), width(tree), leak(tree)


def check_lines(case, rec, distinct=False):
    script, syn, opts = case['script'], case['syntax'], case.get('options') or {}
    if G.uses_snippet_key(script, syn):
        rec.skip('name-is-snippet-key')
        return
    text = M.ser_script(script)
    nodes = M.unroll(M.interpret(script))
    exp = render_indent(nodes, syn, opts)
    d, w, leak = shape(script)
    if d >= 3 or (w >= 3 and leak):
        rec.nontrivial(distinct=distinct)
    rec.cls('syntax-' + syn)
    if leak:
        rec.cls('self-closing-or-text-leaf-before-sibling')
    cfg = {'syntax': syn, 'snippets': dict(G.NEUTRALISE), 'options': dict(opts)}
    rec.evals()
    try:
        with guard():
            got = expand(text, cfg)
            cfg2 = {'syntax': 'html', 'snippets': dict(G.NEUTRALISE), 'options': {'output.format': False, 'output.selfClosingStyle': 'xml'}}
            html = expand(text, cfg2)
    except Exception as e:
        rec.fail(core.exc_bucket(e), '%r (%s): %s: %s' % (text, syn, type(e).__name__, core.short(str(e), 150)))
        return
    if got != exp:
        gl, el_ = got.split(opts.get('output.newline', '\n')), exp.split(opts.get('output.newline', '\n'))
        kind = 'line-count' if len(gl) != len(el_) else 'line-content'
        if kind == 'line-content':
            for a, b in zip(gl, el_):
                if a != b:
                    if a.lstrip(' \t.') == b.lstrip(' \t.') or a.strip() == b.strip():
                        kind = 'indentation'
                    break
        rec.fail('indent-syntax:' + kind, 'abbr %r syntax %s options %r\n expected %r\n got      %r' % (text, syn, opts, exp, got))
        return
    # differential: tree from indentation == tree from the HTML output (multi-line texts and markup-looking texts never occur in names)
    if opts.get('output.indent', '\t') != '':
        ti = tree_from_indent(got, syn, opts)
        try:
            th = html_tree(html)
        except L.LexError as e:
            raise core.HarnessError('cannot lex HTML output %r: %s' % (html, e))
        if ti != th:
            rec.fail('indent-tree!=html-tree', 'abbr %r syntax %s\n from indentation %r\n from HTML        %r' % (text, syn, ti, th))


def check_lines_x(case, rec):
    check_lines(case, rec, True)


def check_text_parent(case, rec):
    """elements below a text-only item that keeps its children (its text carries a field, or it is a text snippet such as `c`): how the text
    itself is laid out is not stated, but every ELEMENT still gets a line of its own, indented by its depth in the tree"""
    abbr, syn, elements = case['abbr'], case['syntax'], case['elements']
    ind = case.get('indent', '\t')
    rec.nontrivial(distinct=True)
    rec.cls('text-only-parent')
    rec.evals()
    try:
        with guard():
            got = expand(abbr, {'syntax': syn, 'options': {'output.indent': ind}})
    except Exception as e:
        rec.fail(core.exc_bucket(e), '%r (%s): %s: %s' % (abbr, syn, type(e).__name__, core.short(str(e), 150)))
        return
    lines = got.split('\n')
    at = 0
    for name, depth in elements:
        head = SYN[syn]['beforeName'] + name
        found = None
        for i in range(at, len(lines)):
            body = lines[i]
            k = 0
            while body.startswith(ind, k):
                k += len(ind)
            if body[k:].startswith(head):
                found = (i, k // len(ind))
                break
        if found is None:
            rec.fail('indent-syntax:element-without-own-line', 'abbr %r syntax %s: no line (from line %d on) starts with %r\n output %r' % (abbr, syn, at, head, got))
            return
        if found[1] != depth:
            rec.fail('indent-syntax:indentation', 'abbr %r syntax %s: element %r is indented %d level(s), its depth is %d\n output %r' % (abbr, syn, name, found[1], depth, got))
            return
        at = found[0] + 1


CHECKS = {'lines': check_lines, 'lines-x': check_lines_x, 'text-parent': check_text_parent}


def text_parent_cases():
    # names chosen so that none is a prefix of another (the text of the text-only item may be glued to a head)
    parents = [('', []), ('ul>', [('ul', 0)]), ('section>nav>', [('section', 0), ('nav', 1)])]
    texts = ['{x${1}}', '{${1}}', '{t${0} u}', 'c', '{${1:ph} w}']
    kids = [('zp', [('zp', 0)]), ('li#only', [('li', 0)]), ('zp+zq', [('zp', 0), ('zq', 0)]), ('zp.note>em', [('zp', 0), ('em', 1)]), ('zq*2', [('zq', 0), ('zq', 0)]),
            ('zp>em+zq', [('zp', 0), ('em', 1), ('zq', 1)])]
    for ptxt, pels in parents:
        for t in texts:
            for ktxt, kels in kids:
                base = len(pels) + 1      # the text-only item is a level of the tree
                for syn in ('haml', 'pug', 'slim'):
                    for ind in ('\t', '  '):
                        yield {'abbr': ptxt + t + '>' + ktxt, 'syntax': syn, 'indent': ind, 'elements': [list(e) for e in pels] + [[n, base + d] for n, d in kels]}


def shard_skeletons(ctx, shard, nshards, n):
    k = 0
    for m in range(1, n + 1):
        for sk in M.skeletons(m, 2):
            for syn in ('haml', 'pug', 'slim'):
                k += 1
                if k % nshards != shard:
                    continue
                ctx.rec.run_case(CHECKS, 'lines-x', {'script': M.name_skeleton(sk), 'syntax': syn, 'options': {}})


def shard_deep(ctx, shard, nshards, n):
    "group-free skeletons with exactly n elements: climbs that do not reach the top followed by further descents/climbs need depth ≥ 3 and ≥ 6 elements (`a>b>c^d>e^f`)"
    k = 0
    for sk in M.skeletons(n, 0):
        k += 1
        if k % nshards != shard:
            continue
        ctx.rec.run_case(CHECKS, 'lines-x', {'script': M.name_skeleton(sk), 'syntax': ('haml', 'pug', 'slim')[k % 3], 'options': {}})


def mention_strategy():
    ident = st.text('abcxyz-_1', min_size=1, max_size=4).filter(lambda s: not s[0].isdigit() and s[0] not in '-')
    # class names may begin with `-`/`--` (BEM-style element and modifier names); ids and first characters of names may not
    cls = st.one_of(ident, ident, st.builds(lambda d, v: d + v, st.sampled_from(['-', '--', '_']), st.text('abcxyz1', min_size=1, max_size=3)))
    return st.one_of(
        st.builds(lambda v: ['.', [v]], cls), st.builds(lambda v: ['.', [v]], cls),
        st.builds(lambda v: ['#', [v]], ident),
        st.builds(lambda n, v: ['a', n, 'raw', [v], False], st.sampled_from(['t', 'title', 'data-a']), st.text('abc123', min_size=1, max_size=3)),
        st.builds(lambda n, v: ['a', n, 'dq', [v] if v else [], False], st.sampled_from(['u', 'title']), st.text('abc 12', max_size=5)),
        # names listed in output.booleanAttributes WITH a value written: the value is kept (only a value-less one is printed bare / `=true`)
        st.builds(lambda n, v: ['a', n, 'raw', [v], False], st.sampled_from(['hidden', 'contenteditable', 'disabled', 'checked']), st.sampled_from(['false', 'until-found', 'x'])),
        st.builds(lambda n, v: ['a', n, 'dq', [v], False], st.sampled_from(['hidden', 'contenteditable', 'disabled']), st.sampled_from(['false', 'a b'])),
        # expression values keep their braces: name={expr}
        st.builds(lambda n, v: ['a', n, 'expr', [v], False], st.sampled_from(['onclick', 'data-v', 'k']), st.sampled_from(['go', 'a.b', 'x+1'])),
        st.builds(lambda n: ['a', n, 'none', None, False], st.sampled_from(['t', 'disabled'])),
        st.builds(lambda n: ['a', n, 'bool', None, False], st.sampled_from(['d', 'e'])),
    )


def order_mentions(ms):
    ids = [m for m in ms if m[0] == '#'][:1]
    rest = [m for m in ms if m[0] != '#']
    return ids + rest


@st.composite
def script15(draw, depth=0):
    names = G.NEUTRAL + ['div', 'ul', 'p', 'span', 'em', 'section', 'table', 'tr']
    n = draw(st.integers(1, 6 if depth == 0 else 3))
    sc = []
    for k in range(n):
        if depth < 2 and draw(st.floats(0, 1)) < 0.12:
            it = {'g': draw(script15(depth + 1)), 'r': draw(st.sampled_from([None, None, 2]))}
        else:
            nameless = draw(st.floats(0, 1)) < 0.2
            ms = order_mentions(draw(st.lists(mention_strategy(), min_size=1 if nameless else 0, max_size=4)))
            it = {'n': None if nameless else [draw(st.sampled_from(names))], 'm': ms, 'x': None, 'r': None, 'sc': False}
            r = draw(st.floats(0, 1))
            if r < 0.25:
                it['x'] = [draw(st.sampled_from(['t', 'some text', 'x y z']))]
            elif r < 0.30:
                it['x'] = [draw(st.sampled_from(['one\ntwo', 'a\nbbb\ncc', 'l1\r\nl2', 'one\n\ntwo', 'p1\nq\n\nr\ns', 'x\n\n\ny']))]
            elif r < 0.35:
                # text with explicit fields, single- and multi-line, the line break in any token
                it['x'] = draw(st.sampled_from([['Name: ', ['f', 1, None], '\nAge: ', ['f', 2, None]], ['Total ', ['f', 1, 'n'], ' items\nThanks'], [['f', 0, None], ' x\ny'],
                                                ['a ', ['f', 1, 'ph'], ' b'], ['l1\n', ['f', 2, 'two'], '\nl3']]))
            elif r < 0.45:
                it['sc'] = True
            if draw(st.floats(0, 1)) < 0.2:
                it['r'] = draw(st.integers(1, 3))
        sc.append(it)
        if k < n - 1:
            ops = ['+', '+', '^', '^^']
            if 'g' not in it and not it['sc']:
                ops += ['>', '>', '>', '>']
            sc.append(draw(st.sampled_from(ops)))
    return sc


def strategy():
    opts = st.fixed_dictionaries({}, optional={'output.indent': st.sampled_from(['\t', '  ', '    ', '..']), 'output.newline': st.sampled_from(['\n', '\r\n']),
                                               'output.baseIndent': st.sampled_from(['', '  ']),
                                               'output.selfClosingStyle': st.sampled_from(['html', 'xhtml', 'xml'])})
    return st.builds(lambda sc, s, o: {'script': sc, 'syntax': s, 'options': o}, script15(), st.sampled_from(['haml', 'pug', 'slim']), opts)


def shard_random(ctx, shard, nshards, n):
    ctx.run_hypothesis('lines', strategy(), n, seed_key=shard)


def run(ctx):
    n = ctx.pick(3, 4)
    ctx.run_parallel('shard_skeletons', extra=(n,))
    ctx.exhaustive('every operator skeleton with ≤ %d elements (groups nested ≤ 2, optional *2) × haml/pug/slim' % n)
    nd = ctx.pick(6, 7)
    ctx.run_parallel('shard_deep', extra=(nd,))
    ctx.exhaustive('every group-free operator skeleton with exactly %d elements (each under one of haml/pug/slim in turn)' % nd)
    ctx.run_parallel('shard_random', extra=(ctx.pick(300, 4000),))
    ctx.run_cases('text-parent', text_parent_cases())
    ctx.exhaustive('3 parent chains × 5 text-only items that keep their children × 6 child shapes × haml/pug/slim × 2 indents: every element on its own line at its depth')
    if ctx.thorough or os.environ.get('VERIF_FUZZ'):
        ctx.run_atheris('lines', ctx.pick(300, 1500), guided=True)


# coverage-guided layer (thorough tier): the Hypothesis strategy under libFuzzer (vlib/fuzz.py, guided mode)
GUIDED = {'lines': strategy}
