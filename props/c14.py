"C14 — a snippet alias expands exactly like its definition, and resolution ends"
import re, copy, sys
from hypothesis import strategies as st
from vlib import core, abbr_model as M, abbr_gen as G
from vlib.core import guard
from emmet import expand
from emmet.config import Config

PROP_ID = 'C14'
RULE = ("(a) exhaustive: every name declared by the raw html, xsl and pug snippet tables (each `|`-separated name of each key), alone (expand(key) == expand(definition), format on and off, "
        "reverseAttributes on/off, with and without a caller's variables table) and — for single-element definitions — with every subset of decorations {.x, #i, [t=1 u], two class mentions, {txt}, *2, /, >p+q} "
        "compared with the textual splice (definition attributes, then alias attributes; alias text/repeat// win; under reverseAttributes alias attributes first); "
        "for multi-element definitions: alias classes land once on every top-level element and nowhere else, alias text lands once inside every top-level element "
        "(also one that has a text of its own; built-in text snippets c, cc:ie, !!! … included), children land inside the deepest last element. "
        "(b) Hypothesis: user tables of 1–6 keys s1…s6 whose definitions are G1 scripts over those keys (self reference, mutual recursion, repeaters, groups, "
        "several top-level elements): acyclic tables ⇒ expand(key) == expand(definition) and decorated aliases as above; every table ⇒ terminates (CPU watchdog, "
        "no RecursionError) with the maximum simultaneous depth of snippet resolution (counted with sys.setprofile) ≤ number of distinct definitions + 1 (the frame that detects the repetition). "
        "Non-trivial: the definition differs from the key's own name, or the table has a cycle; distinct by (syntax, key, decoration, options) / table.")
ASSUME = ["alias == definition equality is asserted only for acyclic tables (with cycles the guard cuts at different points for different entry points)",
          "children of self-closed deepest elements are not generated; on definitions that already carry text/repeat only the alias text is checked (applied once per top-level element), not the full splice"]


def top_level_ops(s):
    "does the definition text contain a top-level operator or group (i.e. more than one element)?"
    d = {'[': 0, '{': 0}
    q = None
    i = 0
    while i < len(s):
        c = s[i]
        if q:
            if c == q:
                q = None
        elif c == '\\':
            i += 1
        elif c in '"\'' and d['['] and not d['{']:
            q = c
        elif c == '[' and not d['{']:
            d['['] += 1
        elif c == ']' and not d['{']:
            d['['] -= 1
        elif c == '{':
            d['{'] += 1
        elif c == '}':
            d['{'] -= 1
        elif not d['['] and not d['{'] and c in '>+^()':
            return True
        i += 1
    return False


def has_top_text(s):
    depth = 0
    q = None
    for c in s:
        if q:
            if c == q:
                q = None
        elif c in '"\'' and depth:
            q = c
        elif c == '[':
            depth += 1
        elif c == ']':
            depth -= 1
        elif c == '{' and depth == 0:
            return True
    return False


DECOS = ['cls', 'id', 'attr', 'cls2', 'text', 'rep', 'sc', 'kids', 'selfkid', 'selfgrandkid']


def splice(defn, deco, reverse):
    "text of `definition + decorations` for a single-element definition"
    base = defn
    had_sc = base.endswith('/')
    if had_sc:
        base = base[:-1]
    attrs = ''
    if 'cls' in deco:
        attrs += '.zz7'
    if 'id' in deco:
        attrs += '#zi'
    if 'attr' in deco:
        attrs += '[t=1 u]'
    if 'cls2' in deco:
        attrs += '.zz8.zz9'
    if reverse:
        m = re.match(r'^([\w:!$@-]*)(.*)$', base, re.S)
        out = m.group(1) + attrs + m.group(2)
    else:
        out = base + attrs
    if 'text' in deco:
        out += '{txt}'
    if 'rep' in deco:
        out += '*2'
    if had_sc or 'sc' in deco:
        out += '/'
    if 'kids' in deco:
        out += '>zp+zq'
    if 'selfkid' in deco:
        out += ('+' if 'kids' in deco else '>') + '(' + defn + ')'
    if 'selfgrandkid' in deco:
        out += ('+' if ('kids' in deco or 'selfkid' in deco) else '>') + 'zr>(' + defn + ')'
    return out


def deco_text(deco, key=None):
    s = ''
    if 'cls' in deco:
        s += '.zz7'
    if 'id' in deco:
        s += '#zi'
    if 'attr' in deco:
        s += '[t=1 u]'
    if 'cls2' in deco:
        s += '.zz8.zz9'
    if 'text' in deco:
        s += '{txt}'
    if 'rep' in deco:
        s += '*2'
    if 'sc' in deco:
        s += '/'
    if 'kids' in deco:
        s += '>zp+zq'
    # the alias again among its own written children / grandchildren: it must expand there exactly like its definition
    if 'selfkid' in deco:
        s += ('+' if 'kids' in deco else '>') + key
    if 'selfgrandkid' in deco:
        s += ('+' if ('kids' in deco or 'selfkid' in deco) else '>') + 'zr>' + key
    return s


def cfg_of(case, fmt):
    c = {'syntax': case['syntax'], 'options': {'output.format': fmt, 'output.reverseAttributes': bool(case.get('reverse'))}}
    if case.get('user'):
        c['snippets'] = dict(case['user'])
    if case.get('variables'):
        c['variables'] = dict(case['variables'])
    return c


def check_alias(case, rec):
    key, deco = case['key'], case.get('deco') or []
    table = Config({'syntax': case['syntax'], 'snippets': case.get('user') or {}}).snippets if case.get('user') else declared_table(case['syntax'])
    defn = table[key]
    if defn != key:
        rec.nontrivial(distinct=True)
    multi = top_level_ops(defn)
    rec.cls(('multi' if multi else 'single') + ('+deco' if deco else ''))
    for fmt in (False, True):
        cfg = cfg_of(case, fmt)
        rec.evals()
        try:
            with guard():
                a = expand(key + deco_text(deco, key), dict(cfg))
                if not deco:
                    b = expand(defn, dict(cfg))
                elif not multi:
                    b = expand(splice(defn, deco, case.get('reverse')), dict(cfg))
                else:
                    b = None
        except Exception as e:
            rec.fail(core.exc_bucket(e), 'key %r deco %r: %s: %s' % (key, deco, type(e).__name__, core.short(str(e), 150)))
            return
        if deco and not multi and not fmt:
            # the decorations themselves must be visible on the result (a fault shared by the alias path and the spliced path would cancel out above)
            try:
                with guard():
                    without_rep = expand(key + deco_text([d for d in deco if d != 'rep'], key), dict(cfg))
            except Exception as e:
                rec.fail(core.exc_bucket(e), 'key %r deco %r: %s: %s' % (key, deco, type(e).__name__, core.short(str(e), 150)))
                return
            copies = 2 if 'rep' in deco else 1
            opens = lambda s: len(re.findall(r'<[^/!?]', s))
            problems = []
            if 'rep' in deco and opens(a) != 2 * opens(without_rep):
                problems.append('*2 does not double the elements (%d vs %d)' % (opens(a), opens(without_rep)))
            if 'cls' in deco and a.count('zz7') != copies:
                problems.append('class zz7 occurs %d times' % a.count('zz7'))
            if 'cls2' in deco and (a.count('zz8') != copies or a.count('zz9') != copies):
                problems.append('classes zz8/zz9 occur %d/%d times' % (a.count('zz8'), a.count('zz9')))
            if 'id' in deco and len(re.findall(r'''\bid=["']zi["']''', a, re.I)) != copies:
                problems.append('id zi missing')
            if 'attr' in deco and (len(re.findall(r'''\bt=["']1["']''', a)) != copies or len(re.findall(r'''\bu=["']["']''', a)) != copies):
                problems.append('attributes t=1 u missing')
            if 'text' in deco and a.count('txt') != copies:
                problems.append('text occurs %d times' % a.count('txt'))
            if 'kids' in deco and 'selfkid' not in deco and 'selfgrandkid' not in deco and (a.count('<zp>') != copies or a.count('<zq>') != copies):
                problems.append('children missing')
            if 'sc' in deco and 'kids' not in deco and 'text' not in deco and '</' in a:
                problems.append('self-closing mark ignored')
            if problems:
                rec.fail('alias-decoration-lost', 'syntax %s key %r (= %r) deco %r reverse=%r → %r: %s' % (case['syntax'], key, defn, deco_text(deco, key), case.get('reverse'), a, '; '.join(problems)))
                return
        if b is not None and a != b:
            rec.fail('alias!=definition' + (':decorated' if deco else ''), 'syntax %s key %r (= %r) deco %r reverse=%r format=%r\n alias      → %r\n definition → %r' % (
                case['syntax'], key, defn, deco_text(deco, key), case.get('reverse'), fmt, a, b))
            return


TAG = re.compile(r'<(/?)([\w:.-]+)((?:"[^"]*"|\'[^\']*\'|\{[^}]*\}|[^<>"\'])*?)(\s*/)?>')


def parse_tags(s):
    "flat list of (kind, name, attrs) for open/close/self tags — the output comes from known alphabets (format off, xhtml style)"
    out = []
    for m in TAG.finditer(s):
        kind = 'close' if m.group(1) else ('self' if m.group(4) else 'open')
        out.append((kind, m.group(2), m.group(3), m.start(), m.end()))
    return out


def check_multi(case, rec):
    "decorated alias of a definition with several elements: classes on every top-level element (once each), children in the deepest last element"
    key = case['key']
    table = Config({'syntax': case['syntax'], 'snippets': case.get('user') or {}}).snippets if case.get('user') else declared_table(case['syntax'])
    defn = table[key]
    rec.nontrivial(distinct=True)
    cfg = {'syntax': case['syntax'], 'options': {'output.format': False, 'output.selfClosingStyle': 'xhtml'}}
    if case.get('user'):
        cfg['snippets'] = dict(case['user'])
    rec.evals()
    try:
        with guard():
            plain = expand(defn, dict(cfg))
            deco = expand(key + '.zz8.zz9', dict(cfg))
            kids = expand(key + '>zp+zq', dict(cfg))
            txt = expand(key + '{zztxt}', dict(cfg))
    except Exception as e:
        rec.fail(core.exc_bucket(e), 'key %r: %s: %s' % (key, type(e).__name__, core.short(str(e), 150)))
        return
    if '<!--' in plain or '<!' in plain or '<?' in plain or '${' in plain:
        rec.skip('definition-with-markup-text')
        return
    tags = parse_tags(plain)
    # tree walk
    depth = 0
    top = 0
    stack = []
    last_path = []
    for kind, name, attrs, a, b in tags:
        if kind == 'open':
            if depth == 0:
                top += 1
            stack.append(name)
            depth += 1
        elif kind == 'self':
            if depth == 0:
                top += 1
        else:
            if not stack or stack[-1] != name:
                rec.skip('output-not-a-tag-tree')
                return
            stack.pop()
            depth -= 1
    if stack:
        rec.skip('output-not-a-tag-tree')
        return
    rec.cls('multi-top-level' if top > 1 else 'single-top-level')
    # classes: removing the alias classes from the decorated output must give the plain output, and they occur once per top-level element
    undeco = deco.replace(' class="zz8 zz9"', '').replace(' zz8 zz9"', '"')
    n = deco.count('zz8 zz9')
    dtags = parse_tags(deco)
    d = 0
    bad_place = False
    for kind, name, attrs, a, b in dtags:
        has = 'zz8' in attrs or 'zz9' in attrs
        if kind in ('open', 'self'):
            if (d == 0) != has:
                bad_place = True
            if has and len(re.findall(r'zz8', attrs)) != 1 or (has and len(re.findall(r'zz9', attrs)) != 1):
                bad_place = True
        if kind == 'open':
            d += 1
        elif kind == 'close':
            d -= 1
    if undeco != plain or n != top or bad_place:
        rec.fail('alias-attributes-misplaced', 'key %r (= %r): %d top-level elements\n plain     %r\n decorated %r' % (key, defn, top, plain, deco))
    # text written on the alias is applied to every top-level element of the definition (also to one that has a text of its own): it occurs
    # once inside each of them and nowhere else
    ttags = parse_tags(txt)
    spans = []
    d = 0
    for kind, name, attrs, a, b in ttags:
        if kind == 'open':
            if d == 0:
                spans.append([a, None])
            d += 1
        elif kind == 'close':
            d -= 1
            if d == 0 and spans:
                spans[-1][1] = b
        elif d == 0:
            spans.append([a, b])
    per = [txt[a:b].count('zztxt') if b is not None else -1 for a, b in spans]
    if txt.count('zztxt') != top or len(per) != top or any(c != 1 for c in per):
        rec.fail('alias-text-misplaced', 'key %r (= %r): %d top-level elements\n plain     %r\n with {zztxt} on the alias %r' % (key, defn, top, plain, txt))
    # children: inside the deepest last element — unless that one is self-closed
    if tags and tags[-1][0] == 'close':
        # trailing run of close tags
        i = len(tags)
        while i > 0 and tags[i - 1][0] == 'close' and (i == len(tags) or tags[i - 1][4] == tags[i][3]):
            i -= 1
        run_start = tags[i][3]
        # the element closed first in the run is the deepest last one provided nothing self-closed sits right before the run
        before = tags[i - 1] if i > 0 else None
        if before is not None and before[0] == 'self' and before[4] == run_start:
            rec.skip('deepest-last-is-self-closed')
        else:
            head = plain[:run_start]
            if head.rstrip() != head and head.rstrip().endswith('>'):
                # an empty leaf listed in output.formatForce (body) is printed with an inner line break; with children it is not a leaf any more
                head = head.rstrip()
            exp = head + '<zp></zp><zq></zq>' + plain[run_start:]
            if kids != exp:
                rec.fail('alias-children-misplaced', 'key %r (= %r)\n expected %r\n got      %r' % (key, defn, exp, kids))


class DepthProbe:
    "maximum simultaneous depth of frames named `resolve` in emmet/markup/snippets.py"
    def __init__(self):
        self.depth = 0
        self.max = 0

    def __call__(self, frame, event, arg):
        if frame.f_code.co_name == 'resolve' and frame.f_code.co_filename.endswith('snippets.py'):
            if event == 'call':
                self.depth += 1
                if self.depth > self.max:
                    self.max = self.depth
            elif event == 'return':
                self.depth -= 1


def graph_has_cycle(user):
    keys = set(user)
    refs = {k: {w for w in re.findall(r's[1-6]', v) if w in keys} for k, v in user.items()}
    state = {}

    def visit(k):
        if state.get(k) == 1:
            return True
        if state.get(k) == 2:
            return False
        state[k] = 1
        for r in refs[k]:
            if visit(r):
                return True
        state[k] = 2
        return False
    return any(visit(k) for k in keys)


def check_table(case, rec):
    user = case['user']
    cyc = graph_has_cycle(user)
    rec.nontrivial()
    rec.cls('user-table-' + ('cyclic' if cyc else 'acyclic'))
    ndefs = len(set(user.values()))
    for key in sorted(user):
        for rev in (False, True):
            cfg = {'snippets': dict(user), 'options': {'output.format': False, 'output.reverseAttributes': rev}}
            probe = DepthProbe()
            rec.evals()
            try:
                with guard():
                    sys.setprofile(probe)
                    try:
                        a = expand(key, dict(cfg))
                    finally:
                        sys.setprofile(None)
            except RecursionError:
                rec.fail('resolution-recursion', 'table %r key %r: RecursionError' % (user, key))
                return
            except Exception as e:
                rec.fail(core.exc_bucket(e), 'table %r key %r: %s: %s' % (user, key, type(e).__name__, core.short(str(e), 150)))
                return
            # the innermost resolve() frame is the one that detects the repetition and returns without nesting further
            if probe.max > ndefs + 1:
                rec.fail('resolution-depth', 'table %r key %r: resolve nesting %d > %d distinct definitions + 1' % (user, key, probe.max, ndefs))
            if not cyc:
                with guard():
                    b = expand(user[key], dict(cfg))
                if a != b:
                    rec.fail('alias!=definition:user-table', 'table %r key %r reverse=%r\n alias      → %r\n definition → %r' % (user, key, rev, a, b))
                    return
    if not cyc:
        for key in sorted(user):
            check_multi({'syntax': 'html', 'key': key, 'user': user}, rec)


def check_text_over_text(case, rec):
    "single-element definition that carries a text of its own (`c`, `cc:ie`, `!!!` …): a text written on the alias is still applied, once"
    key = case['key']
    rec.nontrivial(distinct=True)
    rec.evals()
    try:
        with guard():
            out = expand(key + '{zztxt}', {'syntax': case['syntax'], 'options': {'output.format': False}})
    except Exception as e:
        rec.fail(core.exc_bucket(e), 'key %r: %s: %s' % (key, type(e).__name__, core.short(str(e), 150)))
        return
    if out.count('zztxt') != 1:
        rec.fail('alias-text-misplaced', 'syntax %s key %r (= %r): %r shows the alias text %d times' % (case['syntax'], key, declared_table(case['syntax'])[key], out, out.count('zztxt')))


def chain_ending_in_text(s):
    "definition is one chain `a>b>…` (only `>` at top level, no repeater) whose last item ends in a text `{…}`"
    if not s.endswith('}') or s.endswith('\\}'):
        return False
    d = {'[': 0, '{': 0}
    q = None
    i = 0
    while i < len(s):
        c = s[i]
        if q:
            if c == q:
                q = None
        elif c == '\\':
            i += 1
        elif c in '"\'' and d['['] and not d['{']:
            q = c
        elif c == '[' and not d['{']:
            d['['] += 1
        elif c == ']' and not d['{']:
            d['['] -= 1
        elif c == '{':
            d['{'] += 1
        elif c == '}':
            d['{'] -= 1
        elif not d['['] and not d['{'] and c in '+^()*/':
            return False
        i += 1
    return True


CHAIN_SUFFIXES = ['>zp', '>zp+zq', '>zp>zq', '>zp{t}+zq']


def check_chain_children(case, rec):
    """definition = a chain whose deepest last item is (or ends in) a text, possibly with a field: children written on the alias go where they go when
    the definition is written in place — `key>zp+zq` == `definition>zp+zq`, alone and below a parent, formatting off and on"""
    key, syntax = case['key'], case['syntax']
    user = case.get('user')
    defn = (user or declared_table(syntax))[key]
    rec.nontrivial(distinct=True)
    for fmt in (False, True):
        cfg = {'syntax': syntax, 'options': {'output.format': fmt}}
        if user:
            cfg['snippets'] = dict(user)
        for suf in CHAIN_SUFFIXES:
            for pre in ('', 'zd>'):
                a, b = pre + key + suf, pre + defn + suf
                rec.evals()
                try:
                    with guard():
                        ra, rb = expand(a, copy.deepcopy(cfg)), expand(b, copy.deepcopy(cfg))
                except Exception as e:
                    rec.fail(core.exc_bucket(e), 'key %r: %s: %s' % (key, type(e).__name__, core.short(str(e), 150)))
                    return
                if 'zp' not in rb:
                    rec.skip('in-place-definition-drops-children')
                    continue
                if ra != rb:
                    rec.fail('alias-children-misplaced:text-chain', 'syntax %s, %r = %r, format %s\n %r → %r\n %r → %r' % (syntax, key, defn, fmt, a, ra, b, rb))
                    return
    rec.cls('text-chain-children')


CHAIN_USER = ['%s%s' % (pre, last) for pre in ('', 'section>', 'section>p>', 'em>') for last in ('{T}', '{[ ${0} ]}', '{a ${1} b}', 'p{T}', 'p{x ${0} y}', '{${0}}', 'b{${1:ph}}', '.box{T}', '#i{T}', '[title=t]{T}', '.k{x ${0}}')]


CHECKS = {'chain-children': check_chain_children, 'alias': check_alias, 'multi': check_multi, 'table': check_table, 'text-over-text': check_text_over_text}


def declared_table(syntax):
    """name → definition as DECLARED by the raw snippet tables (every `|`-separated name of every key), type-level table overlaid by the
    syntax-level one — not read from the resolved Config, so a name the loader drops is still expected to work"""
    from emmet.snippets.html import snippets as raw_html
    raws = [raw_html]
    if syntax == 'xsl':
        from emmet.snippets.xsl import snippets as raw_xsl
        raws.append(raw_xsl)
    if syntax == 'pug':
        from emmet.snippets.pug import snippets as raw_pug
        raws.append(raw_pug)
    out = {}
    for raw in raws:
        for k, v in raw.items():
            for name in k.split('|'):
                out[name] = v
    return out


def builtin_cases():
    import itertools
    for syntax in ('html', 'xsl', 'pug'):
        table = declared_table(syntax)
        for key in sorted(table):
            defn = table[key]
            for rev in (False, True):
                yield 'alias', {'syntax': syntax, 'key': key, 'deco': [], 'reverse': rev}
            # with a caller's variables table (one that overrides a default variable, one that only adds a new one): definitions that use
            # ${lang}/${charset}/… must see the same merged variables whether reached through the alias or written in place
            for vs in ({'lang': 'de'}, {'zzvar': 'q'}):
                yield 'alias', {'syntax': syntax, 'key': key, 'deco': [], 'reverse': False, 'variables': vs}
            if syntax == 'pug' and key != '!!!':
                continue
            if chain_ending_in_text(defn):
                yield 'chain-children', {'syntax': syntax, 'key': key}
            if top_level_ops(defn):
                yield 'multi', {'syntax': syntax, 'key': key}
                continue
            if has_top_text(defn) and '*' not in defn.split('[')[0]:
                yield 'text-over-text', {'syntax': syntax, 'key': key}
            if has_top_text(defn) or '*' in defn.split('[')[0]:
                continue
            sc = defn.endswith('/')
            usable = [d for d in DECOS if not (sc and d in ('kids', 'text', 'sc', 'selfkid', 'selfgrandkid'))]
            k = 0
            for r in range(1, len(usable) + 1):
                for combo in itertools.combinations(usable, r):
                    if 'sc' in combo and ('kids' in combo or 'selfkid' in combo or 'selfgrandkid' in combo):
                        continue
                    k += 1
                    # all single decorations and pairs; larger subsets thinned deterministically
                    if r > 2 and (k + len(key)) % 5:
                        continue
                    for rev in (False, True):
                        yield 'alias', {'syntax': syntax, 'key': key, 'deco': list(combo), 'reverse': rev}


def shard_builtin(ctx, shard, nshards):
    for kind, case in core.sharded(builtin_cases(), shard, nshards):
        ctx.rec.run_case(CHECKS, kind, case)
    for i, d in enumerate(CHAIN_USER):
        if i % nshards == shard:
            for syntax in ('html', 'xml'):
                ctx.rec.run_case(CHECKS, 'chain-children', {'syntax': syntax, 'key': 'zw', 'user': {'zw': d}})


KEYS = ['s1', 's2', 's3', 's4', 's5', 's6']
P_DEF = G.P(names=KEYS + ['p', 'div', 'x1', 'ul', 'em'], nameless=0.08, mentions='simple', text=0.12, text_only=0.0, groups=0.15, max_items=4, max_depth=2, rep=0.2, rep_max=3,
            sc=0.0, max_nodes=40)


def estimate(defs, key, stack=()):
    "upper estimate of the number of nodes the resolution of `key` produces (cycle cut like the library: a definition already on the stack stays an element)"
    if key not in defs or key in stack or len(stack) > 8:
        return 1

    def size(script):
        tree = M.interpret(script)

        def cnt(nodes):
            t = 0
            for m in nodes:
                r = m.item.get('r')
                r = r if isinstance(r, int) else 1
                if 'g' in m.item:
                    own = 0
                else:
                    name = M.ser_value(m.item.get('n')) if m.item.get('n') else ''
                    own = estimate(defs, name, stack + (key,)) if name in defs else 1
                t += r * (own + cnt(m.children) * max(1, own if name_is_multi(m) else 1))
            return t

        def name_is_multi(m):
            return False
        return cnt(tree)
    return min(size(defs[key]), 10 ** 9)


def strip_repeats(script):
    out = []
    for it in script:
        if isinstance(it, str):
            out.append(it)
        elif 'g' in it:
            out.append({'g': strip_repeats(it['g']), 'r': None})
        else:
            d = dict(it)
            d['r'] = None
            out.append(d)
    return out


def build_table(ks, ds):
    defs = dict(zip(ks, ds))
    # legitimate work must stay far below the CPU watchdog: bound the estimated size of every resolution (map, not filter)
    if max(estimate(defs, k) for k in defs) > 1500:
        defs = {k: strip_repeats(d) for k, d in defs.items()}
    if max(estimate(defs, k) for k in defs) > 1500:
        defs = {k: d[:1] for k, d in defs.items()}
    return {'user': {k: M.ser_script(d) for k, d in defs.items()}}


def table_strategy():
    return st.builds(build_table, st.lists(st.sampled_from(KEYS), min_size=1, max_size=6, unique=True), st.lists(G.scripts(P_DEF), min_size=6, max_size=6))


def shard_tables(ctx, shard, nshards, n):
    ctx.run_hypothesis('table', table_strategy(), n, seed_key=shard)


def run(ctx):
    ctx.run_parallel('shard_builtin')
    ctx.exhaustive('every key of the html/xsl/pug tables alone × reverseAttributes; single-element definitions × decoration subsets (all of size ≤ 2, every 5th larger one); multi-element definitions: class and children placement')
    ctx.run_cases('table', [{'user': {'s1': 'p+span'}}, {'user': {'s1': 's1'}}, {'user': {'s1': 's2>s1', 's2': 's1+p'}}, {'user': {'s1': 'ul>s2*2', 's2': 'li.a+li.b'}},
                            {'user': {'s1': '(s2+s3)*2', 's2': 's3>em', 's3': 'div.c'}}, {'user': {'s1': 's2', 's2': 's3', 's3': 's4', 's4': 's5', 's5': 's6', 's6': 's1'}}])
    ctx.run_parallel('shard_tables', extra=(ctx.pick(150, 2000),))
