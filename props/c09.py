"C09 — HTML matcher returns the innermost enclosing tag pair with exact ranges"
import os
from hypothesis import strategies as st
from vlib import core, gen_html as GH
from vlib.core import guard
from emmet.html_matcher import match, balanced_outward, balanced_inward

PROP_ID = 'C09'
RULE = ("case = (document tree as JSON, xml flag); the builder writes the text and records every element's open/close/name ranges and every attribute's "
        "name/value ranges. Documents: depth ≤ 6, paired / void (HTML mode) / self-closed / special (script, style incl. script with a non-special type whose body is "
        "scanned) elements, same-name nesting, every attribute form (valueless, double/single quoted with > < quotes blanks, unquoted, {expression}, Angular/React "
        "names *x #x [x] (x) {...x}), comments, CDATA, PIs with quoted ?>, markup-like script/style bodies; XML mode with void names paired. EVERY position 0..len. "
        "Oracle (ground truth): match = innermost recorded element with start < pos < end, ranges and attribute offsets equal to the record and slicing to the text; "
        "balanced_outward = all enclosing elements innermost→outermost; balanced_inward = innermost element at pos followed by its first-child chain (exact on "
        "interior positions, two-valued on element boundaries). Non-trivial: position inside an element of depth ≥ 2 in a document with ≥ 1 noise construct; "
        "distinct by (document, position).")
ASSUME = ["documents are well formed; attribute names are XML names or the documented Angular/React forms; closing tags are written `</name>` without blanks",
          "script/style bodies are skipped in XML mode as well (the matcher's default `special` option applies to both modes)"]


def chain(e):
    res = []
    while e is not None:
        res.append((e.name, e.open, e.close))
        if e.kind not in ('pair',):
            break
        e = e.children[0] if e.children else None
    return res


def check_doc(case, rec):
    doc, xml = case['doc'], bool(case.get('xml'))
    src, els, noise = GH.build(doc, xml)
    opt = {'xml': True} if xml else None
    n = len(src)
    rec.cls('xml-mode' if xml else 'html-mode')
    if any(e.kind == 'void' and e.depth >= 3 and e.parent and e.parent.children[0] is e for e in els):
        rec.cls('void-first-child-depth>=3')
    if any(a[3] and '>' in a[3] for e in els for a in e.attrs):
        rec.cls('gt-inside-attribute-value')
    has_noise = bool(noise)
    bounds = set()
    for e in els:
        bounds.add(e.start)
        bounds.add(e.end)
    for pos in range(0, n + 1):
        enc = [e for e in els if e.start < pos < e.end]
        enc.sort(key=lambda e: e.end - e.start)
        rec.evals(3)
        try:
            with guard():
                m = match(src, pos, opt)
                out = balanced_outward(src, pos, opt)
                inw = balanced_inward(src, pos, opt)
        except Exception as e:
            rec.fail(core.exc_bucket(e), 'pos %d in %r: %s: %s' % (pos, src, type(e).__name__, e))
            return
        if enc and enc[0].depth >= 1 and has_noise:
            rec.nontrivial(key=(src, pos))
        exp = enc[0] if enc else None
        got = (m.name, tuple(m.open), tuple(m.close) if m.close else None) if m else None
        want = (exp.name, exp.open, exp.close) if exp else None
        if got != want:
            rec.fail('match:wrong-element', 'xml=%s pos %d in %r\n expected %r\n got      %r' % (xml, pos, src, want, got))
            return
        if m:
            if src[m.open[0]:m.open[1]][:1 + len(m.name)] != '<' + m.name or src[m.open[1] - 1] != '>' or (m.close and src[m.close[0]:m.close[1]] != '</%s>' % m.name):
                rec.fail('match:range-does-not-slice-to-tag', 'pos %d in %r: %r' % (pos, src, got))
                return
            ga = [(a.name, a.name_start, a.name_end, a.value, a.value_start, a.value_end) for a in m.attributes]
            if ga != exp.attrs:
                rec.fail('match:attributes', 'pos %d in %r\n expected %r\n got      %r' % (pos, src, exp.attrs, ga))
                return
            for a in m.attributes:
                if src[a.name_start:a.name_end] != a.name or (a.value is not None and src[a.value_start:a.value_end] != a.value):
                    rec.fail('match:attribute-range-does-not-slice', 'pos %d in %r: %r' % (pos, src, (a.name, a.value)))
                    return
        got = [(x.name, tuple(x.open), tuple(x.close) if x.close else None) for x in out]
        want = [(e.name, e.open, e.close) for e in enc]
        if got != want:
            rec.fail('outward:wrong-list', 'xml=%s pos %d in %r\n expected %r\n got      %r' % (xml, pos, src, want, got))
            return
        got = [(x.name, tuple(x.open), tuple(x.close) if x.close else None) for x in inw]
        if pos not in bounds:
            want = chain(enc[0]) if enc else []
            if got != want:
                rec.fail('inward:wrong-chain', 'xml=%s pos %d in %r\n expected %r\n got      %r' % (xml, pos, src, want, got))
                return
        else:
            # boundary position: the statement speaks of the element "at the position"; accept the chain of the strict innermost element or of any
            # element that starts/ends exactly here (still with exact ranges), or nothing
            cands = [[]]
            if enc:
                cands.append(chain(enc[0]))
            for e in els:
                if pos in (e.start, e.end) and (e.close or True):
                    cands.append(chain(e))
            if got not in cands:
                rec.fail('inward:wrong-chain-at-boundary', 'xml=%s pos %d in %r\n accepted %r\n got      %r' % (xml, pos, src, cands[:4], got))
                return


CHECKS = {'doc': check_doc}

FIXED = [
    {'xml': False, 'doc': [{'t': 'el', 'kind': 'pair', 'name': 'ul', 'attrs': [], 'ws': '', 'children': [
        {'t': 'el', 'kind': 'pair', 'name': 'li', 'attrs': [], 'ws': '', 'children': [
            {'t': 'el', 'kind': 'pair', 'name': 'a', 'attrs': [[' ', 'href', 'dq', 'x>y']], 'ws': '', 'children': [
                {'t': 'el', 'kind': 'void', 'name': 'br', 'attrs': [], 'ws': '', 'children': []}, {'t': 'text', 's': 't'},
                {'t': 'el', 'kind': 'pair', 'name': 'b', 'attrs': [], 'ws': '', 'children': [{'t': 'el', 'kind': 'void', 'name': 'img', 'attrs': [[' ', 'src', 'unq', 'a']], 'ws': '', 'children': []}]}]}]},
        {'t': 'comment', 's': '<li>'}, {'t': 'el', 'kind': 'self', 'name': 'li', 'attrs': [], 'ws': ' '}]}]},
    {'xml': False, 'doc': [{'t': 'el', 'kind': 'pair', 'name': 'div', 'attrs': [], 'ws': '', 'children': [
        {'t': 'el', 'kind': 'special', 'name': 'script', 'attrs': [], 'ws': '', 'body': 'if (a</b>) {"<div>"}'},
        {'t': 'el', 'kind': 'pair', 'name': 'div', 'attrs': [[' ', 'class', 'dq', 'a  b']], 'ws': '\n', 'children': [{'t': 'el', 'kind': 'pair', 'name': 'div', 'attrs': [], 'ws': '', 'children': []}]},
        {'t': 'pi', 's': 'php echo "?>" '}, {'t': 'cdata', 's': '</div>'}]}]},
    {'xml': True, 'doc': [{'t': 'el', 'kind': 'pair', 'name': 'ns:t', 'attrs': [[' ', 'xml:lang', 'sq', 'en']], 'ws': '', 'children': [
        {'t': 'el', 'kind': 'void', 'name': 'br', 'attrs': [], 'ws': '', 'children': [{'t': 'el', 'kind': 'void', 'name': 'img', 'attrs': [], 'ws': '', 'children': []}]},
        {'t': 'el', 'kind': 'self', 'name': 'br', 'attrs': [], 'ws': ''}]}]},
]


def strategy():
    return st.one_of(GH.documents(False).map(lambda d: {'doc': d, 'xml': False}), GH.documents(False).map(lambda d: {'doc': d, 'xml': False}),
                     GH.documents(True).map(lambda d: {'doc': d, 'xml': True}))


def shard_random(ctx, shard, nshards, n):
    ctx.run_hypothesis('doc', strategy(), n, seed_key=shard)


def run(ctx):
    ctx.run_cases('doc', FIXED)
    ctx.run_parallel('shard_random', extra=(ctx.pick(30, 600),))
    if ctx.thorough or os.environ.get('VERIF_FUZZ'):
        ctx.run_atheris('doc', ctx.pick(200, 1500), guided=True)


# coverage-guided layer (thorough tier): the Hypothesis strategy under libFuzzer (vlib/fuzz.py, guided mode)
GUIDED = {'doc': strategy}
