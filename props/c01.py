"C01 — markup expansion reproduces the element tree the operators denote"
import re, os
from hypothesis import strategies as st
from vlib import core, abbr_model as M, abbr_gen as G
from vlib.core import guard
from emmet import expand, markup_abbreviation
from emmet.config import Config

PROP_ID = 'C01'
RULE = ("case = (structured script, config). (a) every operator skeleton over `> + ^ ^^` (after a group only `+ ^ ^^`) with groups nested ≤ 2, "
        "every element/group optionally *2, pairwise distinct neutral names, up to a bound on the number of elements (exhaustive), plus the "
        "group-free space one element deeper; (b) Hypothesis scripts up to ~40 items with structural names (ul table tr select p em …), nameless "
        "elements (.c #i [a]) under every kind of parent, groups nested ≤ 3, repeat counts ≤ 5, `^^^`, self-closing marks, text. Configurations: "
        "selfClosingStyle html/xhtml/xml × syntax html/xml × format off/on. Oracle: abbreviation text and reference denotation are both derived "
        "from the script (the operators' stated meaning, unrolled repeaters, implicit names by parent); format off → exact string equality with the "
        "reference rendering; format on → equality after deleting all white space (generated names/values/texts contain none); the tree "
        "returned by emmet.markup_abbreviation() must have the same shape and names. "
        "Non-trivial: ≥ 2 operators and at least one of climb/group/repeat; distinct by script (exhaustive layer: by construction).")
ASSUME = ["`>` directly after a group and after a text-only item is never generated (undocumented behaviour); after a self-closed element it is (the child nests, the mark has no effect)",
          "names that are keys of the resolved snippet table are not generated (`select` is neutralised with a user snippet) so aliases cannot change the tree",
          "implicit names checked are those listed in the statement (li tr td option span div)"]

WS = re.compile(r'\s+')
CFGS = [
    {'syntax': 'html', 'options': {'output.selfClosingStyle': 'html'}},
    {'syntax': 'html', 'options': {'output.selfClosingStyle': 'xhtml'}},
    {'syntax': 'xml', 'options': {}},
    {'syntax': 'html', 'options': {'output.selfClosingStyle': 'xml'}},
    {'syntax': 'xml', 'options': {'output.selfClosingStyle': 'html'}},
]
_snip_cache = {}


def snippet_keys(syntax):
    if syntax not in _snip_cache:
        _snip_cache[syntax] = set(Config({'syntax': syntax, 'snippets': dict(G.NEUTRALISE)}).snippets.keys()) - set(G.NEUTRALISE)
    return _snip_cache[syntax]


def names_in(script):
    for it in script:
        if isinstance(it, str):
            continue
        if 'g' in it:
            yield from names_in(it['g'])
        elif it.get('n'):
            yield M.ser_value(it['n'])


def effective_options(cfg):
    o = {'output.selfClosingStyle': 'xml' if cfg.get('syntax') in ('xml', 'xsl') else 'html'}
    o.update(cfg.get('options') or {})
    return o


def check_tree(case, rec, distinct=False):
    script, cfg = case['script'], case['cfg']
    text = M.ser_script(script)
    # case-level neutralisation (`name: name` user snippets, as for `select`): lets the implicit-name table use parents that are built-in aliases
    neutral = dict(G.NEUTRALISE, **{n: n for n in case.get('neutralise') or []})
    keys = snippet_keys(cfg.get('syntax', 'html')) - set(neutral)
    if any(n in keys for n in names_in(script)):
        rec.skip('name-is-snippet-key')
        return
    stats = {}
    tree = M.interpret(script, stats)
    nodes = M.unroll(tree)
    o = effective_options(cfg)
    exp = M.render(nodes, o)
    st_ = M.script_stats(script)
    if st_['ops'] >= 2 and (st_['climb'] or st_['group'] or st_['repeat']):
        rec.nontrivial(distinct=distinct)
    for k in stats:
        rec.cls(k)
    if st_['nameless']:
        rec.cls('has-nameless-element')
    if st_['group'] and st_['repeat']:
        rec.cls('group+repeat')
    # secondary observation point: the tree returned by emmet.markup_abbreviation() has the same shape and names
    secondary = (not distinct) or (st_['group'] and st_['climb'])
    try:
        if not secondary:
            raise StopIteration()
        rec.evals()
        with guard():
            ast = markup_abbreviation(text, Config({'syntax': cfg.get('syntax', 'html'), 'snippets': dict(neutral), 'options': dict(cfg.get('options') or {})}))
        def shape(nodes):
            return [((n.name if (n.name or n.attributes) else '#text'), shape(n.children)) for n in nodes]
        got_shape = shape(ast.children)
        exp_shape = M.resolved_names(nodes, o)
        # text-only items hand their children over to the parent level in the converted tree; the reference keeps them nested
        def flat(t):
            out = []
            for name, kids in t:
                if name == '#text':
                    out.append(('#text', []))
                    out += flat(kids)
                else:
                    out.append((name, flat(kids)))
            return out
        if flat(got_shape) != flat(exp_shape):
            rec.fail('tree-mismatch:parse-tree', 'abbr %r\n expected shape %r\n got shape      %r' % (text, flat(exp_shape), flat(got_shape)))
    except StopIteration:
        pass
    except Exception as e:
        rec.fail(core.exc_bucket(e, 'exc:parse-tree'), '%r: %s: %s' % (text, type(e).__name__, e))
    for fmt in (False, True):
        c = {'syntax': cfg.get('syntax', 'html'), 'snippets': dict(neutral), 'options': dict(cfg.get('options') or {})}
        c['options']['output.format'] = fmt
        rec.evals()
        try:
            with guard():
                got = expand(text, c)
        except Exception as e:
            rec.fail(core.exc_bucket(e, 'exc:format-%s' % ('on' if fmt else 'off')), '%r: %s: %s' % (text, type(e).__name__, e))
            continue
        if fmt:
            if WS.sub('', got) != WS.sub('', exp):
                rec.fail('tree-mismatch:format-on', 'abbr %r\n expected (ws removed) %r\n got      %r' % (text, WS.sub('', exp), WS.sub('', got)))
        elif got != exp:
            rec.fail('tree-mismatch:format-off', 'abbr %r\n expected %r\n got      %r' % (text, exp, got))


def check_tree_x(case, rec):
    check_tree(case, rec, True)


CHECKS = {'tree': check_tree, 'tree-x': check_tree_x}


def shard_skeletons(ctx, shard, nshards, n, depth):
    k = 0
    for sk in M.skeletons(n, depth):
        k += 1
        if k % nshards != shard:
            continue
        ctx.rec.run_case(CHECKS, 'tree-x', {'script': M.name_skeleton(sk), 'cfg': CFGS[k % len(CFGS)]})


P_RANDOM = G.P(max_items=10, max_depth=3, rep=0.25, rep_max=5, nameless=0.25, text=0.15, text_only=0.05, sc=0.06, groups=0.18)
P_LARGE = G.P(max_items=40, max_depth=2, rep=0.12, rep_max=3, nameless=0.25, text=0.1, text_only=0.03, sc=0.05, groups=0.08, max_nodes=600)


def strategy(p):
    return st.builds(lambda sc, c: {'script': sc, 'cfg': c}, G.scripts(p), st.sampled_from(CFGS))


def shard_random(ctx, shard, nshards, n, large):
    ctx.run_hypothesis('tree', strategy(P_LARGE if large else P_RANDOM), n, seed_key=shard + (50 if large else 0))


def implicit_table_cases():
    """every parent name of the documented implicit-name table — the inline elements (the model's own list, not the library's), the list/table/select
    parents, a few block names — with nameless children `.x`, `#i`, `[t=1]`: directly below, below a repeated parent, inside a group, two levels down"""
    el = lambda name, m=None, r=None: {'n': [name] if name else None, 'm': m or [], 'x': None, 'r': r, 'sc': False}
    nameless = [[['.', ['x']]], [['#', ['i']]], [['a', 't', 'raw', ['1'], False]]]
    # (`map`, `object`: the library's table has further entries — area, param — that the statement does not list; not generated, as in the other layers)
    parents = sorted(M.INLINE - {'map', 'object'}) + sorted(M.IMPLICIT) + ['div', 'section', 'x1', 'h1', 'li', 'td', 'option', 'article', 'main']
    k = 0
    for pn in parents:
        for m in nameless:
            k += 1
            cfg = CFGS[k % len(CFGS)]
            nt = [pn]
            yield {'script': [el(pn), '>', el(None, m)], 'cfg': cfg, 'neutralise': nt}
            yield {'script': [el(pn, None, 2), '>', el(None, m), '+', el(None, m)], 'cfg': cfg, 'neutralise': nt}
            yield {'script': [el('x1'), '>', {'g': [el(pn), '>', el(None, m)], 'r': 2}, '+', el(None, m)], 'cfg': cfg, 'neutralise': nt}
            yield {'script': [el(pn), '>', el(None, m), '>', el(None, m), '^', el(None, m)], 'cfg': cfg, 'neutralise': nt}


def run(ctx):
    ctx.run_cases('tree', implicit_table_cases())
    ctx.exhaustive('every parent of the implicit-name table (all %d inline elements of the reference list, the list/table/select parents, block names) × nameless child forms × 4 shapes' % len(M.INLINE))
    # exhaustive skeleton layers
    for n in range(1, ctx.pick(3, 4) + 1):
        ctx.run_parallel('shard_skeletons', extra=(n, 2))
    ctx.exhaustive('every operator skeleton with ≤ %d elements, groups nested ≤ 2, each element/group optionally *2' % ctx.pick(3, 4))
    nf = ctx.pick(5, 6)
    ctx.run_parallel('shard_skeletons', extra=(nf, 0))
    ctx.exhaustive('every group-free skeleton with exactly %d elements' % nf)
    ctx.run_parallel('shard_random', extra=(ctx.pick(250, 4000), False))
    ctx.run_parallel('shard_random', extra=(ctx.pick(60, 800), True))
    if ctx.thorough or os.environ.get('VERIF_FUZZ'):
        ctx.run_atheris('tree', ctx.pick(300, 1500), guided=True)


# coverage-guided layer (thorough tier): the script strategy under libFuzzer (vlib/fuzz.py, guided mode)
# (smaller scripts than P_RANDOM: libFuzzer's byte strings make Hypothesis draw near-uniformly, i.e. much larger cases than its own size-biased search)
P_GUIDED = G.P(max_items=6, max_depth=2, rep=0.25, rep_max=3, nameless=0.25, text=0.15, text_only=0.05, sc=0.06, groups=0.18, max_nodes=120)
GUIDED = {'tree': lambda: strategy(P_GUIDED)}
