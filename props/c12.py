"C12 — formatting options are cosmetic and indentation equals nesting depth"
import re
import os
from hypothesis import strategies as st
from vlib import core, abbr_model as M, abbr_gen as G, outlex as L
from vlib.core import guard
from emmet import expand

PROP_ID = 'C12'
RULE = ("case = (structured script incl. inline/block mixes, text (also multi-line, also starting or ending with a line break), value-less attributes with listed-boolean and other names, repeaters, groups, self-closing marks and snippet aliases; syntax ∈ "
        "html xml xsl jsx vue svelte; two independently drawn option sets A, B over output.format, indent (tab, 2/4 blanks, blank+tab, empty), newline (LF, CRLF, CR), "
        "baseIndent, inlineBreak 0–5, formatLeafNode, formatSkip/formatForce lists, comment.enabled/trigger/before/after (comment-syntax templates), selfClosingStyle). "
        "Oracle (metamorphic): the token streams of expand(abbr, A) and expand(abbr, B), lexed by an independent lexer, are equal after normalising inter-tag white "
        "space (text chunks → trimmed non-empty lines), dropping comment tokens and the style-dependent self-closing slash. Indentation law (format on, formatSkip "
        "empty, xhtml/xml self-closing style): every line after the first starts with baseIndent + indent × (elements open at that point, minus one when the line "
        "starts with a closing tag) followed by a non-blank or nothing. Exhaustive layer: 40 fixed abbreviations × all 2^k settings of 6 boolean/enum options vs a "
        "baseline, incl. the xsl aliases var/vare/wp/pare with children/text under comments. Non-trivial: the two outputs differ as strings and the abbreviation has depth ≥ 2.")
ASSUME = ["texts have no leading/trailing blanks on their lines and contain no `<`; text-only items have children only when their text carries a field (then the children are printed in its place); comment templates are written in comment syntax (`<!-- … -->`) so that comment text is recognisable",
          "`>` is never written after a text-only item, a group or a self-closed element"]

SYNTAXES = ['html', 'xml', 'xsl', 'jsx', 'vue', 'svelte']
ALIASES = {'html': ['a', 'img', 'br', 'link', 'input', 'bq', 'btn', 'select', 'label', 'ol', 'dl'],
           'xsl': ['var', 'vare', 'wp', 'pare', 'tm', 'ap', 'choose', 'val', 'each', 'a'],
           'xml': ['a', 'br'], 'jsx': ['a', 'img', 'label', 'input'], 'vue': ['a', 'img'], 'svelte': ['a', 'br']}


def depth_of(script):
    def d(nodes):
        return max([0] + [(0 if 'g' in n.item else 1) + d(n.children) for n in nodes])
    return d(M.interpret(script))


def run_expand(text, syntax, opts):
    with guard():
        return expand(text, {'syntax': syntax, 'options': dict(opts)})


def check_cosmetic(case, rec, distinct=False):
    script, syntax, A, B = case['script'], case['syntax'], case['A'], case['B']
    text = M.ser_script(script)
    rec.evals(2)
    try:
        outA = run_expand(text, syntax, A)
        outB = run_expand(text, syntax, B)
    except Exception as e:
        rec.fail(core.exc_bucket(e), '%r (%s): %s: %s' % (text, syntax, type(e).__name__, core.short(str(e), 150)))
        return
    if outA != outB and depth_of(script) >= 2:
        rec.nontrivial(distinct=distinct)
    rec.cls('syntax-' + syntax)
    if A.get('comment.enabled') != B.get('comment.enabled'):
        rec.cls('comments-on-vs-off')
    if A.get('output.format', True) != B.get('output.format', True):
        rec.cls('format-on-vs-off')
    tA = L.normalise(L.lex(outA))
    tB = L.normalise(L.lex(outB))
    if tA != tB:
        # locate first difference for the report
        k = 0
        while k < min(len(tA), len(tB)) and tA[k] == tB[k]:
            k += 1
        what = 'content'
        da, db = (tA[k] if k < len(tA) else None), (tB[k] if k < len(tB) else None)
        if da and db and da[0] == db[0] == 'tag' and da[1] == db[1]:
            what = 'attributes'
        rec.fail('not-cosmetic:%s:%s' % (what, syntax if syntax == 'xsl' else 'any'),
                 'abbr %r syntax %s\n A=%r\n B=%r\n first difference at token %d: %r vs %r\n outA=%r\n outB=%r' % (text, syntax, A, B, k, da, db, core.short(outA, 300), core.short(outB, 300)))
    # the self-closing style in force is the REQUESTED one (the option where given, else the syntax default): it changes only the mark before `>`,
    # and it is that style's mark that is printed
    for o, out in ((A, outA), (B, outB)):
        if syntax == 'jsx':
            break
        style = o.get('output.selfClosingStyle', 'xml' if syntax in ('xml', 'xsl') else 'html')
        for t in L.lex(out):
            if t[0] == 'tag' and t[3]:
                raw = out[t[4]:t[5]]
                ok = {'html': False, 'xhtml': raw.endswith(' />'), 'xml': raw.endswith('/>') and not raw.endswith(' />')}[style]
                if not ok:
                    rec.fail('self-closing-style-not-the-requested-one', 'abbr %r syntax %s options %r: tag %r printed under style %r\n output %r' % (text, syntax, o, raw, style, core.short(out, 300)))
                    break
    for name, o, out in (('A', A, outA), ('B', B, outB)):
        if o.get('output.format', True) and o.get('output.formatSkip', ['html']) == [] and o.get('output.selfClosingStyle', 'xml' if syntax in ('xml', 'xsl') else 'html') in ('xhtml', 'xml'):
            check_indent(text, syntax, o, out, rec, ':multiline-text-before-children' if multiline_text_before_children(script) else '')


def multiline_text_before_children(script):
    "some element carries text with a line break and is followed by `>` (children)"
    for i, it in enumerate(script):
        if isinstance(it, dict):
            if 'g' in it:
                if multiline_text_before_children(it['g']):
                    return True
            elif it.get('x') and any(isinstance(a, str) and ('\n' in a or '\r' in a) for a in it['x']) and i + 1 < len(script) and script[i + 1] == '>':
                return True
    return False


def check_indent(text, syntax, o, out, rec, shape=''):
    nl = o.get('output.newline', '\n')
    base = o.get('output.baseIndent', '')
    ind = o.get('output.indent', '\t')
    rec.cls('indent-law-checked')
    toks = L.lex(out)
    # depth before each character offset that starts a line
    events = []          # (offset, delta)
    for t in toks:
        if t[0] == 'tag' and not t[3]:
            events.append((t[5], +1, t[4]))     # depth rises after the open tag
        elif t[0] == 'close':
            events.append((t[2], -1, t[2]))     # closing tag: depth falls at its start (aligned with its opening tag)
    events.sort()
    pos = 0
    lineno = 0
    depth = 0
    ei = 0
    # lines are delimited by ANY line break; each break must be the configured newline string
    pieces = re.split(r'(\r\n|\r|\n)', out)
    for sep in pieces[1::2]:
        if sep != nl:
            rec.fail('indentation-law:foreign-line-break' + shape, 'abbr %r syntax %s options %r\n the output contains the line break %r, configured output.newline is %r\n output %r' % (
                text, syntax, o, sep, nl, core.short(out, 400)))
            return
    for line in out.split(nl):
        start = pos
        pos += len(line) + len(nl)
        if lineno > 0:
            while ei < len(events) and events[ei][0] <= start:
                depth += events[ei][1]
                ei += 1
            # inside a comment or tag spanning lines? (comment templates may contain line breaks: they start a line with the comment itself)
            d = depth - 1 if line.lstrip(' \t').startswith('</') else depth
            prefix = base + ind * max(d, 0)
            rest = line[len(prefix):] if line.startswith(prefix) else None
            if rest is None:
                rec.fail('indentation-law' + shape, 'abbr %r syntax %s options %r\n line %d is %r, expected prefix %r (depth %d)\n output %r' % (text, syntax, o, lineno, line, prefix, depth, core.short(out, 400)))
                return
            if rest and rest[0] in ' \t':
                rec.fail('indentation-law' + shape, 'abbr %r syntax %s options %r\n line %d is %r: extra blank after the expected prefix %r (depth %d)\n output %r' % (text, syntax, o, lineno, line, prefix, depth, core.short(out, 400)))
                return
        lineno += 1


def check_cosmetic_x(case, rec):
    check_cosmetic(case, rec, True)


CHECKS = {'cosmetic': check_cosmetic, 'cosmetic-x': check_cosmetic_x}

COMMENT_BEFORE = ['', '<!-- [#ID] -->', '<!-- b:[.CLASS] -->\n']
COMMENT_AFTER = ['\n<!-- /[#ID][.CLASS] -->', '', '<!-- /[#ID][.CLASS] -->', '\n<!-- [TITLE>t:] end -->']


def options_strategy():
    return st.fixed_dictionaries({}, optional={
        'output.format': st.booleans(),
        'output.indent': st.sampled_from(['\t', '  ', '    ', ' \t', '']),
        'output.newline': st.sampled_from(['\n', '\r\n', '\r']),
        'output.baseIndent': st.sampled_from(['', '  ', '\t', '\t ']),
        'output.inlineBreak': st.integers(0, 5),
        'output.formatLeafNode': st.booleans(),
        'output.formatSkip': st.sampled_from([['html'], [], ['div', 'ul'], ['p', 'x1']]),
        'output.formatForce': st.sampled_from([['body'], [], ['x1', 'li'], ['a', 'span']]),
        'comment.enabled': st.booleans(),
        'comment.trigger': st.sampled_from([['id', 'class'], ['class'], ['title', 'id'], []]),
        'comment.before': st.sampled_from(COMMENT_BEFORE),
        'comment.after': st.sampled_from(COMMENT_AFTER),
        'output.selfClosingStyle': st.sampled_from(['html', 'xhtml', 'xml']),
    })


def law_options():
    "option sets under which the indentation law is evaluated"
    return st.fixed_dictionaries({'output.format': st.just(True), 'output.formatSkip': st.just([]), 'output.selfClosingStyle': st.sampled_from(['xhtml', 'xml'])}, optional={
        'output.indent': st.sampled_from(['\t', '  ', ' \t', '    ']),
        'output.newline': st.sampled_from(['\n', '\r\n']),
        'output.baseIndent': st.sampled_from(['', '  ', '\t', '\t ']),
        'output.inlineBreak': st.integers(0, 5),
        'output.formatLeafNode': st.booleans(),
        'output.formatForce': st.sampled_from([['body'], [], ['x1', 'li']]),
        'comment.enabled': st.booleans(),
        'comment.after': st.sampled_from(COMMENT_AFTER),
    })


def script_strategy(syntax):
    names = G.NEUTRAL + G.STRUCT + ALIASES[syntax] * 2
    p = G.P(names=names, nameless=0.15, mentions='simple', text=0.3, text_kind='simple', text_only=0.12, groups=0.15, max_items=8, max_depth=2, rep=0.25, rep_max=3, sc=0.08, max_nodes=80, text_only_fields=0.5)
    def multiline(sc, which, lead, booleans):
        # turn some simple texts into two-line texts, let some start or end with a line break, and give some elements value-less attributes
        # whose names are / are not in output.booleanAttributes (their printed form must not depend on any formatting option)
        n = [0]
        def walk(s):
            for it in s:
                if isinstance(it, dict):
                    if 'g' in it:
                        walk(it['g'])
                    else:
                        if booleans and it.get('n') and (len(it['n'][0]) + len(it.get('m') or [])) % booleans == 0 and not any(m[0] == 'a' and m[1] in ('disabled', 'checked', 'lang') for m in it['m']):
                            it['m'] = it['m'] + [['a', ['disabled', 'checked', 'lang'][len(it['m']) % 3], 'none', None, False]]
                        if it.get('x') and it.get('n'):
                            n[0] += 1
                            if which and n[0] % which == 0:
                                it['x'] = it['x'] + ['\nsecond line']
                            if lead and n[0] % lead == 1:
                                it['x'] = (['\n' + it['x'][0]] + it['x'][1:]) if isinstance(it['x'][0], str) else ['\n'] + it['x']
                            elif lead and n[0] % lead == 2:
                                it['x'] = (it['x'][:-1] + [it['x'][-1] + '\n']) if isinstance(it['x'][-1], str) else it['x'] + ['\n']
        walk(sc)
        return sc
    return st.builds(multiline, G.scripts(p), st.sampled_from([0, 0, 0, 2, 3]), st.sampled_from([0, 0, 0, 3, 4]), st.sampled_from([0, 0, 2, 3]))


def strategy():
    def case(syntax):
        return st.builds(lambda sc, a, b: {'script': sc, 'syntax': syntax, 'A': a, 'B': b}, script_strategy(syntax),
                         st.one_of(options_strategy(), law_options()), st.one_of(options_strategy(), st.just({})))
    return st.sampled_from(SYNTAXES + ['html', 'xsl']).flatmap(case)


def el(name, **kw):
    d = {'n': [name], 'm': [], 'x': None, 'r': None, 'sc': False}
    d.update(kw)
    return d


FIXED = [
    ('html', [el('div', m=[['#', ['a']]]), '>', el('p', m=[['.', ['b']]]), '>', el('span'), '+', el('em', x=['t'])]),
    ('html', [el('ul', m=[['.', ['nav']]]), '>', el('li', r=3, m=[['.', ['i']]]), '>', el('a', x=['x'])]),
    ('html', [el('x1'), '>', el('br', sc=True), '+', el('img'), '+', el('x2', x=['one\ntwo'])]),
    ('html', [el('p'), '>', {'n': None, 'm': [], 'x': ['Click '], 'r': None, 'sc': False}, '+', el('a', x=['here']), '+', {'n': None, 'm': [], 'x': ['now'], 'r': None, 'sc': False}]),
    ('html', [el('bq', m=[['#', ['t']]]), '>', el('link'), '+', el('btn', x=['go'])]),
    ('html', [{'g': [el('x1', m=[['.', ['c']]]), '>', el('x2')], 'r': 2}, '+', el('x3', m=[['a', 'title', 'dq', ['T'], False]])]),
    ('xml', [el('x1', m=[['#', ['a']]]), '>', el('x2', sc=True), '+', el('x3'), '>', el('x4', x=['t'])]),
    ('jsx', [el('div', m=[['.', ['a']]]), '>', el('label', m=[['a', 'for', 'raw', ['x'], False]]), '>', el('input')]),
    ('vue', [el('div', m=[['#', ['a']], ['.', ['b']]]), '>', el('p'), '+', el('p', x=['t'])]),
    ('svelte', [el('x1', m=[['.', ['k']]]), '>', el('a'), '+', el('b'), '+', el('i')]),
] + [('xsl', [el(alias, m=m), op, child]) for alias in ('var', 'vare', 'wp', 'pare', 'tm', 'each')
     for m in ([], [['#', ['v']]], [['.', ['c']]])
     for op, child in (('>', el('x1')), ('>', el('val', sc=False)), ('+', el('x2', x=['t'])))] + \
    [('xsl', [el(alias, x=['txt'], m=[['#', ['v']]])]) for alias in ('var', 'vare', 'wp', 'pare')]

TOGGLES = [('output.format', [True, False]), ('comment.enabled', [False, True]), ('output.selfClosingStyle', ['html', 'xhtml', 'xml']), ('output.formatLeafNode', [False, True]),
           ('output.inlineBreak', [3, 0, 1]), ('output.indent', ['\t', '   ']), ('output.formatSkip', [['html'], []])]


def shard_fixed(ctx, shard, nshards):
    import itertools
    k = 0
    for syntax, sc in FIXED:
        for combo in itertools.product(*[vals for _, vals in TOGGLES]):
            k += 1
            if k % nshards != shard:
                continue
            B = {name: v for (name, _), v in zip(TOGGLES, combo)}
            ctx.rec.run_case(CHECKS, 'cosmetic-x', {'script': sc, 'syntax': syntax, 'A': {}, 'B': B})


def shard_random(ctx, shard, nshards, n):
    ctx.run_hypothesis('cosmetic', strategy(), n, seed_key=shard)


def run(ctx):
    ctx.run_parallel('shard_fixed')
    ctx.exhaustive('%d fixed abbreviations × every combination of 7 option toggles (%d) against the default options' % (len(FIXED), 2 * 2 * 3 * 2 * 3 * 2 * 2))
    ctx.run_parallel('shard_random', extra=(ctx.pick(250, 3000),))
    if ctx.thorough or os.environ.get('VERIF_FUZZ'):
        ctx.run_atheris('cosmetic', ctx.pick(300, 3000), guided=True)


# coverage-guided layer (thorough tier): the Hypothesis strategy under libFuzzer (vlib/fuzz.py, guided mode)
GUIDED = {'cosmetic': strategy}
