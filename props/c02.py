"C02 — repeaters make exactly N copies and number them as documented"
import itertools
import os
from hypothesis import strategies as st
from vlib import core, abbr_model as M, abbr_gen as G
from vlib.core import guard
from emmet import expand

PROP_ID = 'C02'
RULE = ("case = (structured script with *N repeaters and counter atoms, maxRepeat or None). (a) exhaustive: 5 nesting shapes (repeated element, "
        "repeated parent with counter in descendant, repeated group, nested repeaters, sibling after a repeater) × 8 placements (attribute name, name, class, id, "
        "unquoted/double-/single-quoted attribute value, text) × N ≤ 6 (12 thorough) × width ≤ 3 (4) × numbering forms {$, @M, @-, @-M; M ∈ 0 1 2 5 (+10 17)}; "
        "maxRepeat M = 1..30 on a fixed family of nested/sequential/grouped repeater scripts; (b) Hypothesis scripts with counters in every value "
        "position, groups nested ≤ 3, N ≤ 12, with and without maxRepeat. Oracle: reference unroll + counter substitution (copy i of the nearest "
        "enclosing repeater: base+i−1, reversed base+N−i, zero-padded, 1 when none) and a budget simulation of maxRepeat, compared by exact string "
        "equality with expand(format off). Non-trivial: some N ≥ 2 and (nested repeaters, a group repeater, a non-default numbering form, or "
        "maxRepeat below the total number of copies); distinct by (script, maxRepeat).")
ASSUME = ["`*0` and maxRepeat=0 (both mean 'unset' in the library), `$@^` parent numbering and reverse numbering under a truncating maxRepeat are not generated (not defined by the statement)",
          "a literal starting with a digit, @, ^, - or $ never directly follows a counter in generated text (it would be read as part of the numbering token)"]


def has_reverse(x):
    if isinstance(x, list):
        if len(x) == 4 and x[0] == '$' and isinstance(x[1], int):
            return bool(x[3])
        return any(has_reverse(y) for y in x)
    if isinstance(x, dict):
        return any(has_reverse(v) for v in x.values())
    return False


def counter_forms(x, acc):
    if isinstance(x, list):
        if len(x) == 4 and x[0] == '$' and isinstance(x[1], int):
            acc.add((x[2] is not None, bool(x[3]), x[1] > 1))
        else:
            for y in x:
                counter_forms(y, acc)
    elif isinstance(x, dict):
        for v in x.values():
            counter_forms(v, acc)


def rep_info(script, depth=0, acc=None):
    acc = acc if acc is not None else {'max': 1, 'nested': False, 'group': False}
    for it in script:
        if isinstance(it, str):
            continue
        r = it.get('r')
        if isinstance(r, int):
            acc['max'] = max(acc['max'], r)
            if depth:
                acc['nested'] = True
            if 'g' in it:
                acc['group'] = True
        if 'g' in it:
            rep_info(it['g'], depth + (1 if r else 0), acc)
    return acc


def nested_reps(tree, inside=False):
    for m in tree:
        r = m.item.get('r')
        if r and inside:
            return True
        if nested_reps(m.children, inside or bool(r)):
            return True
    return False


def total_copies(tree):
    t = 0
    for m in tree:
        r = m.item.get('r') or 1
        t += (r if m.item.get('r') else 0) + r * total_copies(m.children) if False else 0
    return t


def check_repeat(case, rec, distinct=False):
    script, mr = case['script'], case.get('max_repeat')
    text = M.ser_script(script)
    if G.uses_snippet_key(script):
        rec.skip('name-is-snippet-key')
        return
    tree = M.interpret(script)
    budget = M.Budget(mr)
    nodes = M.unroll(tree, None, budget)
    full = M.unroll(tree) if mr is not None else nodes
    exp = M.render(nodes, {})
    forms = set()
    counter_forms(script, forms)
    info = rep_info(script)
    truncated = mr is not None and M.render(full, {}) != exp
    if mr is not None and truncated and has_reverse(script):
        rec.skip('reverse-under-truncation')
        return
    nd = nested_reps(tree)
    if info['max'] >= 2 and (nd or info['group'] or any(f[0] or f[1] or f[2] for f in forms) or truncated):
        rec.nontrivial(distinct=distinct)
    if truncated:
        rec.cls('maxRepeat-truncates')
    if nd:
        rec.cls('nested-repeaters')
    if info['group']:
        rec.cls('group-repeater')
    if any(f[1] for f in forms):
        rec.cls('reverse-numbering')
    cfg = {'snippets': dict(G.NEUTRALISE), 'options': {'output.format': False}}
    if mr is not None:
        cfg['maxRepeat'] = mr
    rec.evals()
    try:
        with guard():
            got = expand(text, cfg)
    except Exception as e:
        rec.fail(core.exc_bucket(e), '%r: %s: %s' % (text, type(e).__name__, e))
        return
    if got != exp:
        kind = 'maxrepeat' if truncated else 'numbering'
        # coarse shape class: does the number of tags agree?
        if got.count('</') != exp.count('</'):
            kind = 'copies' if not truncated else 'maxrepeat-copies'
        rec.fail('mismatch:' + kind, 'abbr %r maxRepeat=%r\n expected %r\n got      %r' % (text, mr, exp, got))


def check_repeat_x(case, rec):
    check_repeat(case, rec, True)


CHECKS = {'repeat': check_repeat, 'repeat-x': check_repeat_x}


def el(name, r=None, m=None, x=None):
    return {'n': [name] if isinstance(name, str) else name, 'm': m or [], 'x': x, 'r': r, 'sc': False}


def place(counter, where):
    "element named `e` carrying the counter at the given place"
    c = counter
    if where == 'name':
        return el(['xe', c])
    if where == 'class':
        return el('xe', m=[['.', ['c', c]]])
    if where == 'id':
        return el('xe', m=[['#', [c, 'i']]])
    if where == 'raw':
        return el('xe', m=[['a', 't', 'raw', ['v', c], False]])
    if where == 'dq':
        return el('xe', m=[['a', 't', 'dq', ['v ', c, ' w'], False]])
    if where == 'sq':
        return el('xe', m=[['a', 't', 'sq', [c], False]])
    if where == 'attrname':
        return el('xe', m=[['a', ['data-', c], 'raw', ['v'], False]])
    return el('xe', x=['T ', c, '.'])


PLACES = ['name', 'class', 'id', 'raw', 'dq', 'sq', 'text', 'attrname']


def exhaustive_cases(thorough):
    Ns = range(1, 13 if thorough else 7)
    widths = range(1, 5 if thorough else 4)
    bases = [0, 1, 2, 5] + ([10, 17] if thorough else [])
    forms = [(None, False)] + [(b, False) for b in bases] + [(None, True)] + [(b, True) for b in bases]
    for N, w, (b, rev), where in itertools.product(Ns, widths, forms, PLACES):
        c = ['$', w, b, rev]
        e = place(c, where)
        # S1 repeated element itself
        s = dict(e); s['r'] = N
        yield [s]
        # S2 repeated parent, counter in descendant
        yield [el('xp', r=N), '>', el('xq'), '>', e]
        # S3 group carries the repeater
        yield [{'g': [el('xa'), '+', e, '>', el('xb')], 'r': N}]
        # S4 nested repeaters: the inner one counts
        for K in (2, 3):
            s = dict(e); s['r'] = K
            yield [el('xp', r=N), '>', s]
        # S5 sibling after a repeated element reads 1
        yield [el('xp', r=N), '+', e]
        # S6 repeated group inside a repeated parent, counter in the group
        yield [el('xp', r=2), '>', {'g': [e, '+', el('xz')], 'r': N}]


MR_SCRIPTS = [
    [el('ul', r=3), '>', el('li', r=3, x=[['$', 1, None, False]])],
    [el('xa', r=2), '>', el('xb', r=2), '>', el('xc', r=2, m=[['.', ['k', ['$', 2, None, False]]]])],
    [{'g': [el('xa'), '>', el('xb', r=3)], 'r': 2}, '+', el('xc', r=4)],
    [el('xa', r=5, x=[['$', 1, 3, False]])],
    [el('xa', r=3), '+', el('xb', r=3), '+', el('xc', r=3)],
    [{'g': [el('xa', r=2), '+', el('xb', r=2)], 'r': 3}],
    [el('xa', r=2), '>', {'g': [el('xb', r=2), '>', el('xc', r=2)], 'r': 2}, '^', el('xd', r=3)],
    [el('xt'), '>', el('xa', r=4), '>', el('xb'), '+', el('xc', r=2)],
    [el('xa', r=1), '>', el('xb', r=7)],
]


def shard_exhaustive(ctx, shard, nshards):
    k = 0
    for sc in exhaustive_cases(ctx.thorough):
        k += 1
        if k % nshards == shard:
            ctx.rec.run_case(CHECKS, 'repeat-x', {'script': sc, 'max_repeat': None})
    for sc in MR_SCRIPTS:
        for mr in range(1, 31):
            k += 1
            if k % nshards == shard:
                ctx.rec.run_case(CHECKS, 'repeat-x', {'script': sc, 'max_repeat': mr})


P_ALL = G.P(counters=True, counter_forms='all', names=G.NEUTRAL + ['ul', 'p', 'div', 'span'], nameless=0.1, text=0.35, text_only=0.05, groups=0.22, max_items=7,
            max_depth=3, rep=0.5, rep_max=12, sc=0.03, max_nodes=400)
P_FWD = G.P(counters=True, counter_forms='fwd', names=G.NEUTRAL + ['ul', 'p', 'div', 'span'], nameless=0.1, text=0.35, text_only=0.05, groups=0.22, max_items=7,
            max_depth=3, rep=0.5, rep_max=8, sc=0.03, max_nodes=400)


def strategy():
    a = st.builds(lambda sc: {'script': sc, 'max_repeat': None}, G.scripts(P_ALL))
    b = st.builds(lambda sc, mr: {'script': sc, 'max_repeat': mr}, G.scripts(P_FWD), st.integers(1, 30))
    return st.one_of(a, b)


def shard_random(ctx, shard, nshards, n):
    ctx.run_hypothesis('repeat', strategy(), n, seed_key=shard)


def run(ctx):
    ctx.run_parallel('shard_exhaustive')
    ctx.exhaustive('7 nesting shapes × 8 placements × N ≤ %d × width ≤ %d × %d numbering forms; maxRepeat 1..30 × %d scripts' % (
        12 if ctx.thorough else 6, 4 if ctx.thorough else 3, 14 if ctx.thorough else 10, len(MR_SCRIPTS)))
    ctx.run_parallel('shard_random', extra=(ctx.pick(300, 4000),))
    if ctx.thorough or os.environ.get('VERIF_FUZZ'):
        ctx.run_atheris('repeat', ctx.pick(300, 1500), guided=True)


# coverage-guided layer (thorough tier): the Hypothesis strategy under libFuzzer (vlib/fuzz.py, guided mode)
GUIDED = {'repeat': strategy}
