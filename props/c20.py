"C20 — configuration layers override each other in the documented order"
import copy, itertools
from vlib import core
from vlib.core import guard
import emmet
import emmet.config as C
from emmet import expand
from emmet.config import Config

PROP_ID = 'C20'
RULE = ("case = (kind ∈ options/snippets/variables, type, syntax, presence bits of the six layers "
        "[built-in, type defaults, syntax defaults, global type, global syntax, call]) — the complete 2^6 lattice for every known syntax of "
        "both types, `xhtml` and unknown syntax names, plus the lattices with type and syntax, or only the syntax, left out of the call config (exhaustive; built-in layers are injected into deep copies of DEFAULT_CONFIG / "
        "SYNTAX_CONFIG swapped in for one case); plus natural keys of the shipped tables ('!!!', 'a', 'tm', selfClosingStyle, jsx.enabled, "
        "stylesheet.after/between) × 2^3 caller layers. Oracle: the key resolves to the sentinel of the most specific defining layer, every other "
        "key equals the baseline, the same winner is visible through expand() (for stylesheet snippets also when the call carries a cache filled by an earlier call without caller layers; for the variables lang/charset also inside the body of the built-in snippet `doc`), and deep snapshots of all built-in tables and caller dicts are "
        "unchanged. Non-trivial: ≥ 2 layers define the key; distinct by construction.")
ASSUME = ["`type` is always passed explicitly (the README's 'syntax implies type' is not implemented and not claimed by C20)",
          "emmet.config looks up DEFAULT_CONFIG / SYNTAX_CONFIG as module globals at call time (true for merged_data); the swap is undone in finally"]

MARKUP = ['html', 'xml', 'xsl', 'jsx', 'js', 'pug', 'slim', 'haml', 'vue', 'svelte', 'xhtml', 'nosuch', 'foo-bar', 'HTML']
STYLE = ['css', 'sass', 'scss', 'less', 'sss', 'stylus', 'nosuch', 'foo-bar', 'CSS']
KNOWN_SYNTAX_ENTRIES = set(C.SYNTAX_CONFIG.keys())
UNKNOWN = {'nosuch', 'foo-bar', 'HTML', 'CSS'}

SENT = {
    'options': lambda typ, k: ('~%d~' % k),
    'snippets': lambda typ, k: ('lay%d' % k) if typ == 'markup' else ('lay-%d:v' % k),
    'variables': lambda typ, k: ('var%d' % k),
}


def sentinel_key(kind, typ):
    if kind == 'options':
        return 'output.indent' if typ == 'markup' else 'stylesheet.between'
    return 'zzs' if kind == 'snippets' else 'zzv'


def snapshot():
    return copy.deepcopy((C.DEFAULT_CONFIG, C.DEFAULT_OPTIONS, C.SYNTAX_CONFIG, C.DEFAULT_SYNTAXES, C.SYNTAXES,
                          emmet.snippets.markup_snippets, emmet.snippets.stylesheet_snippets, emmet.snippets.xsl_snippets,
                          emmet.snippets.pug_snippets, emmet.snippets.variables))


def live():
    return (C.DEFAULT_CONFIG, C.DEFAULT_OPTIONS, C.SYNTAX_CONFIG, C.DEFAULT_SYNTAXES, C.SYNTAXES,
            emmet.snippets.markup_snippets, emmet.snippets.stylesheet_snippets, emmet.snippets.xsl_snippets,
            emmet.snippets.pug_snippets, emmet.snippets.variables)


def check_lattice(case, rec):
    kind, typ, syntax, bits = case['kind'], case['type'], case['syntax'], case['layers']
    key = sentinel_key(kind, typ)
    val = lambda k: SENT[kind](typ, k)
    rec.evals()
    if sum(bits) >= 2:
        rec.nontrivial(distinct=True)
    rec.cls('%s/%d-layers' % (kind, sum(bits)))
    orig_default, orig_syntax = C.DEFAULT_CONFIG, C.SYNTAX_CONFIG
    # baseline: same type/syntax, no caller layers, original tables
    with guard():
        base = Config({'type': typ, 'syntax': syntax}, {})
        if case.get('implicit') == 'syntax':
            probe = Config({'type': typ}, {})
            if probe.syntax != syntax or probe.type != typ:
                rec.fail('default-syntax-for-type', 'Config({"type": %r}) reports type=%r syntax=%r, expected the type\'s default syntax %r' % (typ, probe.type, probe.syntax, syntax))
                return
    base_table = dict(getattr(base, kind))
    try:
        dc = copy.deepcopy(orig_default)
        sc = copy.deepcopy(orig_syntax)
        # L0: the built-in default layer. options always carry the natural key there; snippets/variables get the sentinel injected or not
        if kind == 'options':
            if bits[0]:
                dc['options'][key] = val(0)
            else:
                dc['options'].pop(key, None)
        elif bits[0]:
            dc[kind][key] = val(0)
        if bits[1]:
            sc.setdefault(typ, {}).setdefault(kind, {})[key] = val(1)
        else:
            sc.get(typ, {}).get(kind, {}).pop(key, None)
        if bits[2]:
            sc.setdefault(syntax, {}).setdefault(kind, {})[key] = val(2)
        else:
            sc.get(syntax, {}).get(kind, {}).pop(key, None)
        glob = {}
        if bits[3]:
            glob.setdefault(typ, {}).setdefault(kind, {})[key] = val(3)
        if bits[4]:
            glob.setdefault(syntax, {}).setdefault(kind, {})[key] = val(4)
        # 'implicit': the caller leaves type and syntax out (defaults markup/html) — possibly passing an entirely empty config
        if case.get('implicit') == 'syntax':
            user = {'type': typ}        # syntax left out: the type's default syntax (html / css) applies
        else:
            user = {} if case.get('implicit') else {'type': typ, 'syntax': syntax}
        if bits[5]:
            user[kind] = {key: val(5)}
        C.DEFAULT_CONFIG, C.SYNTAX_CONFIG = dc, sc
        snap_tables = copy.deepcopy((dc, sc))
        snap_user, snap_glob = copy.deepcopy(user), copy.deepcopy(glob)
        winner = max((k for k in range(6) if bits[k]), default=None)
        with guard():
            cfg = Config(user, glob)
        table = getattr(cfg, kind)
        got = table.get(key, None)
        exp = val(winner) if winner is not None else None
        if got != exp:
            rec.fail('precedence:%s' % kind, 'layers %s: %s[%r] = %r, expected %r (layer %s wins)' % (bits, kind, key, got, exp, winner))
        rest = {k: v for k, v in table.items() if k != key}
        base_rest = {k: v for k, v in base_table.items() if k != key}
        if rest != base_rest:
            diff = [k for k in set(rest) | set(base_rest) if rest.get(k, '<absent>') != base_rest.get(k, '<absent>')]
            rec.fail('untouched-keys-changed:%s' % kind, 'keys %r differ from the baseline' % sorted(diff)[:5])
        # through expand
        if winner is not None:
            with guard():
                if kind == 'options' and typ == 'markup':
                    out = expand('div>p', user, glob)
                    ok = exp in out and not any(('~%d~' % k) in out for k in range(6) if k != winner)
                elif kind == 'options':
                    out = expand('m10', user, glob)
                    ok = out.startswith('margin' + exp)
                elif kind == 'snippets' and typ == 'markup':
                    out = expand('zzs', user, glob)
                    ok = ('lay%d' % winner) in out and not any(('lay%d' % k) in out for k in range(6) if k != winner)
                elif kind == 'snippets':
                    out = expand('zzs', user, glob)
                    ok = out.startswith('lay-%d' % winner)
                elif typ == 'markup':
                    out = expand('p{${zzv}}', user, glob)
                    ok = ('var%d' % winner) in out and not any(('var%d' % k) in out for k in range(6) if k != winner)
                else:
                    out, ok = None, True
            if not ok:
                rec.fail('precedence-via-expand:%s' % kind, 'layers %s: expand output %r does not show the value of layer %d' % (bits, out, winner))
            if typ == 'markup' and ok:
                # the same winner when the call also carries a wrap text (the text is one more key of the call layer, not a reason to drop the others)
                ut = dict(user, text='WT')
                with guard():
                    if kind == 'options':
                        out = expand('div>p', ut, glob)
                        ok = exp in out and not any(('~%d~' % k) in out for k in range(6) if k != winner)
                    elif kind == 'snippets':
                        out = expand('zzs', ut, glob)
                        ok = ('lay%d' % winner) in out and not any(('lay%d' % k) in out for k in range(6) if k != winner)
                    else:
                        out = expand('p{${zzv}}', ut, glob)
                        ok = ('var%d' % winner) in out and not any(('var%d' % k) in out for k in range(6) if k != winner)
                if not ok or 'WT' not in out:
                    rec.fail('precedence-via-expand:%s:with-text' % kind, 'layers %s + wrap text: expand output %r does not show the value of layer %d (or lost the text)' % (bits, out, winner))
        # immutability
        if (dc, sc) != snap_tables:
            rec.fail('builtin-table-modified', 'DEFAULT_CONFIG/SYNTAX_CONFIG changed by Config()/expand()')
        u2 = dict(user)
        s2 = dict(snap_user)
        u2.pop('text', None)      # the caller's top-level `text` entry is C08's business
        s2.pop('text', None)
        if u2 != s2:
            rec.fail('caller-config-modified', 'user config changed: %r -> %r' % (snap_user, user))
        if glob != snap_glob:
            rec.fail('global-config-modified', 'global config changed: %r -> %r' % (snap_glob, glob))
    finally:
        C.DEFAULT_CONFIG, C.SYNTAX_CONFIG = orig_default, orig_syntax


NATURAL = [
    # kind, type, syntax, key, per-layer value maker, abbreviation to observe, how
    ('snippets', 'markup', 'pug', '!!!'), ('snippets', 'markup', 'xsl', '!!!'), ('snippets', 'markup', 'html', '!!!'),
    ('snippets', 'markup', 'pug', 'a'), ('snippets', 'markup', 'xsl', 'tm'), ('snippets', 'markup', 'html', 'tm'), ('snippets', 'markup', 'xsl', 'a'),
    ('snippets', 'markup', 'nosuch', 'a'), ('snippets', 'markup', 'jsx', 'zzq'), ('snippets', 'stylesheet', 'css', 'm'), ('snippets', 'stylesheet', 'stylus', 'm'),
    ('snippets', 'stylesheet', 'nosuch', 'p'),
    ('options', 'markup', 'xml', 'output.selfClosingStyle'), ('options', 'markup', 'xsl', 'output.selfClosingStyle'), ('options', 'markup', 'xhtml', 'output.selfClosingStyle'),
    ('options', 'markup', 'html', 'output.selfClosingStyle'), ('options', 'markup', 'jsx', 'jsx.enabled'), ('options', 'markup', 'svelte', 'jsx.enabled'),
    ('options', 'markup', 'html', 'jsx.enabled'), ('options', 'stylesheet', 'sass', 'stylesheet.after'), ('options', 'stylesheet', 'stylus', 'stylesheet.after'),
    ('options', 'stylesheet', 'stylus', 'stylesheet.between'), ('options', 'stylesheet', 'css', 'stylesheet.after'), ('options', 'markup', 'jsx', 'markup.attributes'),
    ('variables', 'markup', 'html', 'lang'), ('variables', 'markup', 'pug', 'charset'), ('variables', 'stylesheet', 'css', 'lang'), ('variables', 'markup', 'nosuch', 'nosuchvar'),
]


def nat_value(kind, typ, key, k):
    if kind == 'snippets':
        return ('nat%d' % k) if typ == 'markup' else ('nat-%d:v' % k)
    if key == 'output.selfClosingStyle':
        return ['html', 'xhtml', 'xml'][k % 3] + ''  # three legal values; winner identified on the Config object
    if key == 'jsx.enabled':
        return 'jsx-layer-%d' % k
    if key == 'markup.attributes':
        return {'class': 'cls%d' % k}
    return '<%d>' % k


def check_natural(case, rec):
    kind, typ, syntax, key, caller = case['kind'], case['type'], case['syntax'], case['key'], case['caller']
    rec.evals()
    builtin = [key in C.DEFAULT_CONFIG.get(kind, {}),
               key in C.SYNTAX_CONFIG.get(typ, {}).get(kind, {}),
               key in C.SYNTAX_CONFIG.get(syntax, {}).get(kind, {})]
    bits = builtin + list(caller)
    if sum(bits) >= 2:
        rec.nontrivial()
    rec.cls('natural/%s' % kind)
    before = snapshot()
    glob = {}
    user = {'type': typ, 'syntax': syntax}
    if caller[0]:
        glob.setdefault(typ, {}).setdefault(kind, {})[key] = nat_value(kind, typ, key, 3)
    if caller[1]:
        glob.setdefault(syntax, {}).setdefault(kind, {})[key] = nat_value(kind, typ, key, 4)
    if caller[2]:
        user[kind] = {key: nat_value(kind, typ, key, 5)}
    snap_user, snap_glob = copy.deepcopy(user), copy.deepcopy(glob)
    with guard():
        cfg = Config(user, glob)
        base = Config({'type': typ, 'syntax': syntax}, {})
    winner = max((k for k in range(6) if bits[k]), default=None)
    if winner is None:
        exp = None
    elif winner >= 3:
        exp = nat_value(kind, typ, key, winner)
    elif winner == 2:
        exp = C.SYNTAX_CONFIG[syntax][kind][key]
    elif winner == 1:
        exp = C.SYNTAX_CONFIG[typ][kind][key]
    else:
        exp = C.DEFAULT_CONFIG[kind][key]
    got = getattr(cfg, kind).get(key)
    if got != exp:
        rec.fail('precedence-natural:%s' % kind, '%s/%s key %r layers %s: got %r expected %r' % (typ, syntax, key, bits, got, exp))
    rest = {k: v for k, v in getattr(cfg, kind).items() if k != key}
    base_rest = {k: v for k, v in getattr(base, kind).items() if k != key}
    if rest != base_rest:
        rec.fail('untouched-keys-changed:%s' % kind, 'other keys differ from the baseline for %s/%s' % (typ, syntax))
    # observable through expand
    if kind == 'snippets' and exp is not None:
        with guard():
            out = expand(key, dict(user, options={'output.format': False}) if False else user, glob)
        if winner >= 3:
            tag = ('nat%d' % winner) if typ == 'markup' else ('nat-%d' % winner)
            if tag not in out:
                rec.fail('precedence-via-expand:snippets', '%s/%s expand(%r) = %r, expected the layer-%d definition' % (typ, syntax, key, out, winner))
        else:
            with guard():
                out0 = expand(key, {'type': typ, 'syntax': syntax}, {})
            if out != out0:
                rec.fail('precedence-via-expand:snippets', '%s/%s expand(%r) = %r differs from the built-in result %r' % (typ, syntax, key, out, out0))
    if kind == 'snippets' and exp is not None and typ == 'stylesheet':
        # the same winner when the call carries a cache that an earlier call with other layers (here: none) has filled
        cache = {}
        with guard():
            expand(key, {'type': typ, 'syntax': syntax, 'cache': cache}, {})
            out_c = expand(key, dict(user, cache=cache), glob)
        if out_c != out:
            rec.fail('precedence-via-expand:snippets:shared-cache', '%s/%s expand(%r) with a cache filled by a call without caller layers = %r, without cache %r (layers %s)' % (typ, syntax, key, out_c, out, bits))
    if kind == 'variables' and typ == 'markup' and key in ('lang', 'charset') and exp is not None:
        # the same winner where the variable is used inside a snippet BODY (`doc`: html[lang=${lang}] … meta[charset=${charset}])
        with guard():
            out = expand('doc', user, glob)
        if ('"%s"' % exp) not in out or any(('"<%d>"' % k) in out for k in range(6) if '<%d>' % k != exp):
            rec.fail('precedence-via-expand:variables:snippet-body', '%s/%s expand("doc") does not show %s=%r (layers %s): %r' % (typ, syntax, key, exp, bits, core.short(out, 200)))
        with guard():
            out = expand('doc', dict(user, text='WT'), glob)
        if ('"%s"' % exp) not in out or any(('"<%d>"' % k) in out for k in range(6) if '<%d>' % k != exp):
            rec.fail('precedence-via-expand:variables:snippet-body:with-text', '%s/%s expand("doc") with a wrap text does not show %s=%r (layers %s): %r' % (typ, syntax, key, exp, bits, core.short(out, 200)))
    if kind == 'snippets' and typ == 'markup' and exp is not None and winner >= 3:
        with guard():
            out = expand(key, dict(user, text='WT'), glob)
        if ('nat%d' % winner) not in out:
            rec.fail('precedence-via-expand:snippets:with-text', '%s/%s expand(%r) with a wrap text = %r, expected the layer-%d definition' % (typ, syntax, key, out, winner))
    if kind == 'options' and key == 'output.selfClosingStyle':
        with guard():
            out = expand('br', user, glob)
        want = {'html': '<br>', 'xhtml': '<br />', 'xml': '<br/>'}[exp]
        if out != want:
            rec.fail('precedence-via-expand:options', '%s expand("br") = %r, expected %r for style %r' % (syntax, out, want, exp))
    if live() != before:
        rec.fail('builtin-table-modified', 'a built-in table changed during Config()/expand()')
    u2, s2 = dict(user), dict(snap_user)
    u2.pop('text', None)
    s2.pop('text', None)
    if u2 != s2:
        rec.fail('caller-config-modified', 'user config changed: %r -> %r' % (snap_user, user))
    if glob != snap_glob:
        rec.fail('global-config-modified', 'global config changed')


def check_unknown(case, rec):
    typ, syntax = case['type'], case['syntax']
    rec.evals()
    rec.cls('unknown-syntax')
    with guard():
        a = Config({'type': typ, 'syntax': syntax}, {})
        b = Config({'type': typ}, {})
    for kind in ('options', 'snippets', 'variables'):
        if getattr(a, kind) != getattr(b, kind):
            rec.fail('unknown-syntax-fallback:%s' % kind, '%s tables for syntax %r differ from the bare %s type' % (kind, syntax, typ))
        # reference: built-in defaults overlaid by the type defaults
        ref = dict(C.DEFAULT_CONFIG.get(kind, {}))
        ref.update(C.SYNTAX_CONFIG.get(typ, {}).get(kind, {}))
        if getattr(a, kind) != ref:
            rec.fail('unknown-syntax-fallback:%s' % kind, '%s tables for syntax %r are not defaults+type defaults' % (kind, syntax))
    if a.type != typ or a.syntax != syntax:
        rec.fail('unknown-syntax-identity', 'Config reports type=%r syntax=%r' % (a.type, a.syntax))
    with guard():
        o1 = expand('ul>li' if typ == 'markup' else 'm10', {'type': typ, 'syntax': syntax})
        o2 = expand('ul>li' if typ == 'markup' else 'm10', {'type': typ})
    if o1 != o2:
        rec.fail('unknown-syntax-expand', 'expand under unknown syntax %r gives %r, bare type gives %r' % (syntax, o1, o2))
    rec.nontrivial()


# ---- option effects: every option is observed through expand() under every assignment of {absent, v1, v2} to the three caller layers
# (key, v1, v2, abbreviation, fixed call-level options, wrap text allowed)
EFFECTS_M = [
    ('output.tagCase', 'upper', 'lower', 'Div>P', {}, True),
    ('output.attributeCase', 'upper', 'lower', 'p[Title=x]', {}, True),
    ('output.attributeQuotes', 'single', 'double', 'p[title=x]', {}, True),
    ('output.indent', '  ', '      ', 'div>p', {}, True),
    # boundary values: the empty string, and a value equal to the BUILT-IN default where the syntax's own default differs (xml: selfClosingStyle)
    ('output.newline', '', '\r\n', 'div>p', {}, False, '<div>\t<p></p></div>', '\r\n'),
    ('output.indent', '', '  ', 'div>p', {}, False, '\n<p>', '\n  <p>'),
    ('output.selfClosingStyle', 'html', 'xhtml', 'div>br', {}, False, '<br>', '<br />'),
    ('output.attributeQuotes', 'double', 'single', 'p[title=x]', {}, False, 'title="x"', "title='x'"),
    ('output.format', True, False, 'div>p', {}, False, '\n', '<div><p></p></div>'),
    ('output.newline', '\r\n', '\r', 'div>p', {}, True),
    ('output.baseIndent', '  ', '\t\t', 'div>p', {}, True),
    ('output.format', False, True, 'div>p', {}, True),
    ('output.inlineBreak', 2, 5, 'div>em+em+em', {}, False),
    ('output.compactBoolean', True, False, 'input[disabled.]', {}, False),
    ('output.booleanAttributes', ['zza'], ['zzb'], 'p[zza zzb]', {}, True),
    ('output.reverseAttributes', True, False, 'a[title=x title=y]', {}, True),
    ('output.selfClosingStyle', 'xhtml', 'xml', 'div>br', {}, False),
    ('output.formatLeafNode', True, False, 'div>p', {}, False),
    ('output.formatSkip', ['p'], ['div'], 'div>p>em+section', {}, False),
    ('output.formatForce', ['em'], ['span'], 'p>em+span', {}, True),
    ('inlineElements', ['section'], ['article'], '.a>section>.b', {}, True),
    ('markup.attributes', {'class': 'klass'}, {'class': 'cn'}, 'p.a', {}, True),
    ('markup.valuePrefix', {'class': 'styles'}, {'class': 'st'}, 'p.a', {}, True),
    ('markup.href', False, True, 'a', {}, 'http://x.io'),
    ('comment.enabled', True, False, 'div>p#a', {}, True),
    ('comment.after', ' <!-- E1 [#ID] -->', ' <!-- E2 -->', 'div>p#a', {'comment.enabled': True}, True),
    ('comment.before', '<!-- B1 -->', '<!-- B2 -->', 'div>p#a', {'comment.enabled': True}, True),
    ('comment.trigger', ['title'], ['lang'], 'p[title=x]+p[lang=y]', {'comment.enabled': True, 'comment.after': '<!-- C -->'}, True),
    ('bem.enabled', True, False, 'div.b>p.-e', {}, True),
    ('bem.element', '--', '___', 'div.b>p.-e', {'bem.enabled': True}, True),
    ('bem.modifier', '~~', '==', 'div.b_m', {'bem.enabled': True}, True),
    ('jsx.enabled', True, False, 'div#a.{x}', {}, True),
]
EFFECTS_C = [
    ('stylesheet.between', '::', ' = ', 'm10', {}, False),
    ('stylesheet.after', ';;', '', 'm10', {}, False),
    ('stylesheet.intUnit', 'pt', 'rem', 'm10', {}, False),
    ('stylesheet.floatUnit', 'pt', 'rem', 'm1.5', {}, False),
    ('stylesheet.shortHex', False, True, 'c#fc0', {}, False),
    ('stylesheet.unitAliases', {'x': 'zz'}, {'x': 'yy'}, 'm10x', {}, False),
    ('stylesheet.unitless', ['margin'], ['padding'], 'm10+p10', {}, False),
    ('stylesheet.json', True, False, 'm10', {}, False),
    ('stylesheet.jsonDoubleQuotes', True, False, 'pos:a', {'stylesheet.json': True}, False),
    ('stylesheet.fuzzySearchMinScore', 0.99, 0.0, 'mrg10', {}, False),
    ('stylesheet.keywords', ['zzk'], ['zzj'], 'm:zz', {}, False),
    ('output.newline', '\r\n', '\r', 'm10+p10', {}, False),
    ('output.format', False, True, 'm10+p10', {}, False),
    ('output.field', None, None, None, {}, False),
]


def check_effect(case, rec):
    typ, syntax, key, v1, v2, abbr, fixed, text = case['type'], case['syntax'], case['key'], case['v1'], case['v2'], case['abbr'], case['fixed'], case.get('text')
    kind = case.get('kind', 'options')       # the table the key lives in: options, variables or snippets
    vals = {1: v1, 2: v2}

    def ex(gt, gs, call):
        user = {'type': typ, 'syntax': syntax, 'options': dict(fixed)}
        if text:
            user['text'] = text
        if call:
            user.setdefault(kind, {})[key] = copy.deepcopy(vals[call])
        glob = {}
        if gt:
            glob.setdefault(typ, {}).setdefault(kind, {})[key] = copy.deepcopy(vals[gt])
        if gs:
            glob.setdefault(syntax, {}).setdefault(kind, {})[key] = copy.deepcopy(vals[gs])
        su, sg = copy.deepcopy(user), copy.deepcopy(glob)
        rec.evals()
        with guard():
            out = expand(abbr, user, glob)
        su.pop('text', None)
        u2 = dict(user)
        u2.pop('text', None)
        if u2 != su or glob != sg:
            rec.fail('caller-config-modified', 'option %r: expand(%r) changed the caller\'s dictionaries' % (key, abbr))
        return out
    D = ex(0, 0, 0)
    R = {0: D, 1: ex(0, 0, 1), 2: ex(0, 0, 2)}
    # (one of the two values may be the default of the syntax — `jsx.enabled` under jsx — so only their difference is required; were the call layer
    # ignored both would equal the default output)
    if R[1] == R[2]:
        rec.fail('option-without-effect:%s' % key, '%s/%s: %r = %r and = %r give the same expand(%r) = %r' % (typ, syntax, key, v1, v2, abbr, R[1]))
        return
    if text and text not in R[1].replace('"', ' ').replace('>', ' ').replace('<', ' ') and text not in R[1]:
        rec.fail('option-effect:text-lost:%s' % key, 'wrap text %r missing from %r' % (text, R[1]))
    # where the value itself is visible in the output (variables, snippet bodies) it must be there literally — also the empty string
    for k in (1, 2):
        mk = case.get('m%d' % k)
        if mk is not None and mk not in R[k]:
            rec.fail('value-not-in-output:%s' % kind, '%s/%s %s %r = %r: expand(%r) = %r does not contain %r' % (typ, syntax, kind, key, vals[k], abbr, R[k], mk))
            return
    rec.nontrivial()
    rec.cls('%s-effect/%s%s' % (kind, typ, '+text' if text else ''))
    for gt, gs, call in itertools.product((0, 1, 2), repeat=3):
        if (gt, gs) == (0, 0):
            continue
        win = call or gs or gt
        out = ex(gt, gs, call)
        if out != R[win]:
            lay = {0: 'absent', 1: repr(v1), 2: repr(v2)}
            rec.fail('precedence-via-expand:%s-effect:%s' % (kind[:-1], key),
                     '%s/%s option %r: global-type layer %s, global-syntax layer %s, call %s → expand(%r%s) = %r, expected the output of the most specific layer (%s): %r'
                     % (typ, syntax, key, lay[gt], lay[gs], lay[call], abbr, ' + wrap text' if text else '', out, lay[win], R[win]))
            return
    # a call whose layers do not mention the key is untouched by the calls before it that did
    D2 = ex(0, 0, 0)
    if D2 != D:
        rec.fail('layer-value-outlives-its-call:%s' % kind, '%s/%s %s %r: expand(%r) without any caller layer gave %r before and %r after calls that defined the key' % (typ, syntax, kind, key, abbr, D, D2))


def effect_cases():
    for typ, table, syntaxes in (('markup', EFFECTS_M, ('html', 'xml', 'jsx', 'nosuch')), ('stylesheet', EFFECTS_C, ('css', 'stylus', 'nosuch'))):
        for entry in table:
            key, v1, v2, abbr, fixed, text = entry[:6]
            if abbr is None:
                continue
            for syn in syntaxes:
                if len(entry) > 6:
                    # entries with literal markers: what the value must make visible in the output
                    yield {'type': typ, 'syntax': syn, 'key': key, 'v1': v1, 'v2': v2, 'abbr': abbr, 'fixed': fixed, 'text': None, 'm1': entry[6], 'm2': entry[7]}
                    continue
                if not isinstance(text, str):
                    yield {'type': typ, 'syntax': syn, 'key': key, 'v1': v1, 'v2': v2, 'abbr': abbr, 'fixed': fixed, 'text': None}
                if text:
                    yield {'type': typ, 'syntax': syn, 'key': key, 'v1': v1, 'v2': v2, 'abbr': abbr, 'fixed': fixed, 'text': text if isinstance(text, str) else 'WT'}


    # variables and snippets whose VALUE shows in the output, incl. the boundary values: empty string, a value equal to the key's own name,
    # a value that looks like another variable reference
    VARS = [('lang', '', 'de', 'p[title=${lang}]{(${lang})}', 'title=""', 'title="de"'), ('zzv', '', 'zzv', 'p[title=${zzv}]{(${zzv})}', '()', '(zzv)'),
            ('charset', '', 'x y', '!', 'charset=""', 'charset="x y"'), ('lang', '0', 'lang', 'doc', 'lang="0"', 'lang="lang"')]
    for key, v1, v2, abbr, m1, m2 in VARS:
        for syn in ('html', 'pug', 'nosuch'):
            if syn == 'pug' and abbr in ('!', 'doc'):
                continue
            for text in (None, 'WT'):
                yield {'kind': 'variables', 'type': 'markup', 'syntax': syn, 'key': key, 'v1': v1, 'v2': v2, 'abbr': abbr, 'fixed': {}, 'text': text, 'm1': m1, 'm2': m2}
    SNIPS = [('markup', 'zzs', 'em.a', 'strong.b', 'zzs', '<em class="a">', '<strong class="b">'), ('markup', 'a', 'a[href=q]', 'b', 'a', 'href="q"', '<b>'),
             ('stylesheet', 'zzs', 'zz-prop:a|b', 'yy-prop:c', 'zzs', 'zz-prop: a', 'yy-prop: c'),
             # a user longhand that nests under a shipped shorthand: its keywords resolve through the shorthand only while that layer is present
             ('stylesheet', 'bgx', 'background-extra:alpha|beta', 'background-extra:gamma|delta', 'bg:al', 'background: alpha', 'background: al'), ('stylesheet', 'm', 'max-zz:1', 'min-zz:2', 'm', 'max-zz: 1', 'min-zz: 2')]
    for typ, key, v1, v2, abbr, m1, m2 in SNIPS:
        for syn in (('html', 'xml', 'nosuch') if typ == 'markup' else ('css', 'scss', 'nosuch')):
            yield {'kind': 'snippets', 'type': typ, 'syntax': syn, 'key': key, 'v1': v1, 'v2': v2, 'abbr': abbr, 'fixed': {}, 'text': None, 'm1': m1, 'm2': m2}


CHECKS = {'effect': check_effect, 'lattice': check_lattice, 'natural': check_natural, 'unknown': check_unknown}


def run(ctx):
    pairs = [('markup', s) for s in MARKUP] + [('stylesheet', s) for s in STYLE]
    def lattice():
        for typ, syntax in pairs:
            for kind in ('options', 'snippets', 'variables'):
                for bits in itertools.product([False, True], repeat=6):
                    yield {'kind': kind, 'type': typ, 'syntax': syntax, 'layers': list(bits)}
    ctx.run_cases('lattice', lattice())
    ctx.run_cases('lattice', ({'kind': kind, 'type': 'markup', 'syntax': 'html', 'layers': list(bits), 'implicit': True}
                              for kind in ('options', 'snippets', 'variables') for bits in itertools.product([False, True], repeat=6)))
    ctx.run_cases('lattice', ({'kind': kind, 'type': typ, 'syntax': syn, 'layers': list(bits), 'implicit': 'syntax'}
                              for typ, syn in (('markup', 'html'), ('stylesheet', 'css')) for kind in ('options', 'snippets', 'variables')
                              for bits in itertools.product([False, True], repeat=6)))
    ctx.exhaustive('2^6 layer-presence subsets × {options, snippets, variables} × %d (type, syntax) pairs' % len(pairs))
    def natural():
        for kind, typ, syntax, key in NATURAL:
            for caller in itertools.product([False, True], repeat=3):
                yield {'kind': kind, 'type': typ, 'syntax': syntax, 'key': key, 'caller': list(caller)}
    ctx.run_cases('natural', natural())
    ctx.exhaustive('%d natural keys of the shipped tables × 2^3 caller layers' % len(NATURAL))
    ctx.run_cases('effect', effect_cases())
    ctx.exhaustive('%d markup and %d stylesheet options observed through expand() under all 3^3 assignments of {absent, v1, v2} to the global-type, global-syntax and call layers, with and without a wrap text' % (len(EFFECTS_M), len(EFFECTS_C) - 1))
    ctx.run_cases('unknown', ({'type': t, 'syntax': s} for t in ('markup', 'stylesheet') for s in ['nosuch', 'foo-bar', 'XML', '', 'x' * 40, 'html5', 'postcss']))
