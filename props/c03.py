"C03 — attributes are carried over, merged and quoted as written"
import itertools
import os
from hypothesis import strategies as st
from vlib import core, abbr_model as M, abbr_gen as G
from vlib.core import guard
from emmet import expand

PROP_ID = 'C03'
RULE = ("case = (1–3 elements each with 0–6 attribute mentions, some of them or an enclosing group repeated ×2–3, config). (a) exhaustive: every sequence of ≤ 3 (4 thorough) mentions over "
        "{.a .b #i #j [t=1] [t=\"2 x\"] [t] [class=c] [d.] [!t] [!t=3] [disabled] [!h.]} × reverseAttributes on/off × 3 option sets; (b) Hypothesis: mentions "
        "drawn with replacement from a 6-name pool (class id disabled for t title) in every written form (shorthand, valueless, unquoted, double/single "
        "quoted incl. empty and with brackets/other quote/blanks, {expression}, `name.`, `!name`, `!name.`, `!name=v`), joined in one bracket set or separate, "
        "across syntaxes html/xml/jsx/vue and options attributeQuotes/attributeCase/compactBoolean/reverseAttributes/selfClosingStyle/user "
        "markup.attributes. Oracle: reference attribute model of the statement (first-mention order, class join, last/first value wins, sticky "
        "boolean/implied, quoting, boolean expansion, implied dropping, name mapping + case), exact equality of the whole output in format-off mode. "
        "Non-trivial: ≥ 1 repeated attribute name or a boolean/implied mention; distinct by (script, config).")
ASSUME = ["mixing {expression} and non-expression values for one attribute name is not generated (value-type inheritance there is unspecified)",
          "values contain no `$`, `\\` or `${` (numbering/escape/field syntax, covered by C02/C04/C13)",
          "syntax defaults used by the reference: jsx maps class→className and for→htmlFor, xml uses the xml self-closing style"]

SYNTAX_OPTS = {'jsx': {'markup.attributes': {'class': 'className', 'for': 'htmlFor'}}, 'xml': {'output.selfClosingStyle': 'xml'}, 'html': {}, 'vue': {}}


def eff(cfg):
    o = dict(SYNTAX_OPTS.get(cfg.get('syntax', 'html'), {}))
    o.update(cfg.get('options') or {})
    return o


def mention_names(script):
    for it in script:
        if isinstance(it, dict) and 'g' not in it:
            yield [('id' if m[0] == '#' else 'class' if m[0] == '.' else m[1]) for m in it.get('m') or []], it.get('m') or []


def check_attrs(case, rec, distinct=False):
    script, cfg = case['script'], case['cfg']
    if G.uses_snippet_key(script, cfg.get('syntax', 'html')):
        rec.skip('name-is-snippet-key')
        return
    text = M.ser_script(script)
    nodes = M.unroll(M.interpret(script))
    o = eff(cfg)
    exp = M.render(nodes, o)
    nt = False
    for names, ms in mention_names(script):
        if len(set(names)) < len(names) or any(m[0] == 'a' and (m[2] == 'bool' or m[2].startswith('impl')) for m in ms):
            nt = True
        if len(set(names)) < len(names):
            rec.cls('repeated-name')
    if nt:
        rec.nontrivial(distinct=distinct)
    if o.get('output.reverseAttributes'):
        rec.cls('reverse')
    rec.cls('syntax-' + cfg.get('syntax', 'html'))
    c = {'syntax': cfg.get('syntax', 'html'), 'snippets': dict(G.NEUTRALISE), 'options': dict(cfg.get('options') or {})}
    c['options']['output.format'] = False
    rec.evals()
    try:
        with guard():
            got = expand(text, c)
    except Exception as e:
        rec.fail(core.exc_bucket(e), '%r: %s: %s' % (text, type(e).__name__, e))
        return
    if got != exp:
        rec.fail('attrs-mismatch:' + ('reverse' if o.get('output.reverseAttributes') else 'forward'),
                 'abbr %r cfg %r\n expected %r\n got      %r' % (text, cfg, exp, got))


def check_attrs_x(case, rec):
    check_attrs(case, rec, True)


def check_alias_attrs(case, rec):
    """mentions written on a user alias whose definition has several top-level elements (`zzpair` = x1+x2+x3): every top-level element carries exactly
    the merged attributes the mentions give when written on that element itself (added after seeded change C03-12: attribute copies sharing one value
    list, visible only when one set of mentions is merged into more than one element)"""
    ms, cfg = case['m'], case['cfg']
    names = ['x1', 'x2', 'x3']
    script = []
    for n in names:
        if script:
            script.append('+')
        script.append({'n': [n], 'm': [list(m) for m in ms], 'x': None, 'r': None, 'sc': False})
    o = eff(cfg)
    exp = M.render(M.unroll(M.interpret(script)), o)
    text = 'zzpair' + M.ser_mentions(ms)
    c = {'syntax': cfg.get('syntax', 'html'), 'snippets': dict(G.NEUTRALISE, zzpair='+'.join(names)), 'options': dict(cfg.get('options') or {})}
    c['options']['output.format'] = False
    rec.evals()
    rec.nontrivial(distinct=True)
    rec.cls('alias-with-several-top-level-elements')
    try:
        with guard():
            got = expand(text, c)
    except Exception as e:
        rec.fail(core.exc_bucket(e), '%r: %s: %s' % (text, type(e).__name__, e))
        return
    if got != exp:
        rec.fail('attrs-mismatch:alias', 'abbr %r (zzpair = %s) cfg %r\n expected %r\n got      %r' % (text, '+'.join(names), cfg, exp, got))


CHECKS = {'attrs': check_attrs, 'attrs-x': check_attrs_x, 'alias-attrs': check_alias_attrs}

POOL = [['.', ['a']], ['.', ['b']], ['#', ['i']], ['#', ['j']], ['a', 't', 'raw', ['1'], False], ['a', 't', 'dq', ['2 x'], False], ['a', 't', 'none', None, False],
        ['a', 'class', 'raw', ['c'], False], ['a', 'd', 'bool', None, False], ['a', 't', 'impl', None, False], ['a', 't', 'impl-raw', ['3'], False],
        ['a', 'disabled', 'none', None, False], ['a', 'h', 'impl-bool', None, False]]
OPTSETS = [{}, {'output.compactBoolean': True, 'output.attributeQuotes': 'single'}, {'output.attributeCase': 'upper', 'output.selfClosingStyle': 'xhtml', 'output.compactBoolean': True}]


def shard_exhaustive(ctx, shard, nshards, maxlen):
    k = 0
    for L in range(0, maxlen + 1):
        for seq in itertools.product(range(len(POOL)), repeat=L):
            for rev in (False, True):
                k += 1
                if k % nshards != shard:
                    continue
                ms = [list(POOL[i]) for i in seq]
                opts = dict(OPTSETS[k % len(OPTSETS)])
                opts['output.reverseAttributes'] = rev
                ctx.rec.run_case(CHECKS, 'attrs-x', {'script': [{'n': ['p'], 'm': ms, 'x': None, 'r': None, 'sc': (k % 7 == 0)}], 'cfg': {'syntax': 'html', 'options': opts}})


# unquoted values with a nested bracket pair followed by characters that are operators outside an attribute set
NESTED = [['a', 't', 'raw', ['x[1].y'], False], ['a', 'u', 'raw', ['[v]+w#z'], False], ['a', 'w', 'raw', ['a[i]*2>b'], False]]


def shard_extra(ctx, shard, nshards):
    k = 0
    pool = POOL + NESTED
    for L in (1, 2, 3):
        for seq in itertools.product(range(len(pool)), repeat=L):
            k += 1
            if k % nshards != shard:
                continue
            ms = [list(pool[i]) for i in seq]
            opts = dict(OPTSETS[k % len(OPTSETS)])
            opts['output.reverseAttributes'] = bool(k % 2)
            if any(i >= len(POOL) for i in seq):
                ctx.rec.run_case(CHECKS, 'attrs-x', {'script': [{'n': ['p'], 'm': ms, 'x': None, 'r': None, 'sc': False}, '>', {'n': ['x1'], 'm': [['.', ['k']]], 'x': None, 'r': None, 'sc': False}],
                                                     'cfg': {'syntax': 'html', 'options': opts}})
            elif L <= 2 or k % 3 == 0:
                if not any(m[0] == 'a' and m[2] == 'expr' for m in ms):
                    ctx.rec.run_case(CHECKS, 'alias-attrs', {'m': ms, 'cfg': {'syntax': 'html', 'options': opts}})


P_ATTR = G.P(names=['p', 'div', 'x1', 'span', 'ul', 'x-y'], nameless=0.15, mentions='full', text=0.1, text_only=0.0, groups=0.15, max_depth=2, max_items=3, rep=0.2, rep_max=3, sc=0.15)


def config_strategy():
    opts = st.fixed_dictionaries({}, optional={
        'output.attributeQuotes': st.sampled_from(['double', 'single']),
        'output.attributeCase': st.sampled_from(['', 'upper', 'lower']),
        'output.compactBoolean': st.booleans(),
        'output.reverseAttributes': st.booleans(),
        'output.selfClosingStyle': st.sampled_from(['html', 'xhtml', 'xml']),
        'markup.attributes': st.sampled_from([{'t': 'data-t'}, {'class': 'klass', 'title': 'TITLE'}, {'for': 'htmlFor', 'disabled': 'off'}, {}]),
        'output.booleanAttributes': st.sampled_from([['t'], ['disabled', 'title'], []]),
    })
    return st.builds(lambda s, o: {'syntax': s, 'options': o}, st.sampled_from(['html', 'html', 'xml', 'jsx', 'vue']), opts)


def strategy():
    return st.builds(lambda sc, c: {'script': sc, 'cfg': c}, G.scripts(P_ATTR), config_strategy())


def shard_random(ctx, shard, nshards, n):
    ctx.run_hypothesis('attrs', strategy(), n, seed_key=shard)


def run(ctx):
    ctx.run_parallel('shard_extra')
    ctx.exhaustive('every sequence of ≤ 2 (every third of length 3) mentions on a user alias with three top-level elements; every sequence of ≤ 3 mentions containing an unquoted value with a nested bracket pair followed by operator characters')
    L = ctx.pick(3, 4)
    ctx.run_parallel('shard_exhaustive', extra=(L,))
    ctx.exhaustive('every sequence of ≤ %d mentions over a 12-mention pool × reverseAttributes on/off (option set rotates over 3)' % L)
    ctx.run_parallel('shard_random', extra=(ctx.pick(500, 6000),))
    if ctx.thorough or os.environ.get('VERIF_FUZZ'):
        ctx.run_atheris('attrs', ctx.pick(300, 4000), guided=True)


# coverage-guided layer (thorough tier): the Hypothesis strategy under libFuzzer (vlib/fuzz.py, guided mode)
GUIDED = {'attrs': strategy}
