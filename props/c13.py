"C13 — tabstops are numbered in document order and reported positions are exact"
import re
from hypothesis import strategies as st
from vlib import core, abbr_model as M, abbr_gen as G, outlex as L, alphabets as A
from vlib.core import guard
from emmet import expand
from emmet.config import Config

PROP_ID = 'C13'
RULE = ("positions: case = (abbreviation text — serialised G1 scripts with explicit ${n}/${n:ph} fields, aliases with fields, stylesheet abbreviations —, config "
        "with any markup/stylesheet syntax, newline LF/CRLF/CR, indent, baseIndent, optional multi-line wrap text; callback flavour ∈ identity / `<`→`&lt;` / "
        "upper-casing / bracketing fields). Oracle: every invocation of output.field / output.text is recorded; result[offset:offset+len(ret)] == ret, line == "
        "number of newline strings before offset, column == distance from the last newline string (or 0). "
        "numbering: case = (G1 script with field atoms, html-family syntax, options); oracle = reference rendering with a marking field callback: every empty "
        "attribute value and every empty non-self-closed leaf gets its own marker, markers are 1,2,3… in document order, explicit fields print base+n per value "
        "with disjoint increasing ranges — exact string equality (format off) / white-space-insensitive (format on). "
        "disjoint: every key of the html/xsl snippet tables alone and nested (exhaustive), generated text-only items with 2–3 explicit fields, children and later siblings, and generated elements whose id/class values carry fields under comment.enabled (the closing comment counts as a value): marker index sets of different attribute values/text chunks, recovered by an "
        "independent lexer, are pairwise disjoint and increasing in document order. "
        "Non-trivial: ≥ 2 output lines and ≥ 3 callback invocations (positions); ≥ 2 markers (numbering/disjoint).")
ASSUME = ["callbacks return strings without line breaks and leave the newline/baseIndent strings unchanged; field placeholders are single-line (the stream's push() is documented as 'without newline processing')",
          "elements whose text contains explicit fields have no children (the library prints children inside the first field there)"]

MARKUP_SYNTAXES = ['html', 'xml', 'jsx', 'vue', 'svelte', 'xsl', 'haml', 'pug', 'slim']


# ---------------------------------------------------------------------------------------------- positions
def make_callbacks(flavour, log):
    def text_cb(text, offset=None, line=None, column=None, **kw):
        if flavour == 'escape':
            ret = text.replace('<', '&lt;')
        elif flavour == 'upper':
            ret = text.upper()
        else:
            ret = text
        log.append(('text', ret, offset, line, column))
        return ret

    def field_cb(index, placeholder, offset=None, line=None, column=None, **kw):
        if flavour == 'bracket':
            ret = '[[%d|%s]]' % (index, placeholder)
        elif flavour == 'upper':
            ret = placeholder.upper()
        else:
            ret = placeholder
        log.append(('field', ret, offset, line, column))
        return ret
    return text_cb, field_cb


def check_positions(case, rec):
    abbr, cfg, flavour = case['abbr'], case['cfg'], case.get('cb', 'plain')
    log = []
    text_cb, field_cb = make_callbacks(flavour, log)
    c = {k: v for k, v in cfg.items() if k != 'options'}
    c['options'] = dict(cfg.get('options') or {})
    c['options']['output.text'] = text_cb
    c['options']['output.field'] = field_cb
    rec.evals()
    try:
        with guard():
            out = expand(abbr, c)
    except Exception as e:
        from emmet.scanner import ScannerException
        from emmet.token_scanner import TokenScannerException
        if isinstance(e, (ScannerException, TokenScannerException)):
            rec.skip('abbreviation-rejected')
            return
        rec.fail(core.exc_bucket(e), '%r: %s: %s' % (abbr, type(e).__name__, core.short(str(e), 150)))
        return
    nl = c['options'].get('output.newline', '\n')
    if flavour == 'upper':
        nl = nl.upper()
    rec.cls('syntax-' + str(cfg.get('syntax', cfg.get('type', 'html'))))
    if nl != '\n':
        rec.cls('newline-' + repr(nl))
    if c['options'].get('output.baseIndent'):
        rec.cls('baseIndent')
    if cfg.get('text') is not None:
        rec.cls('wrap-text')
    if out.count(nl) >= 1 and len(log) >= 3:
        rec.nontrivial()
    # newline positions
    nls = []
    i = out.find(nl)
    while i != -1:
        nls.append(i)
        i = out.find(nl, i + len(nl))
    import bisect
    total = 0
    for kind, ret, offset, line, column in log:
        if not isinstance(offset, int) or out[offset:offset + len(ret)] != ret:
            rec.fail('callback-offset:' + kind, 'abbr %r cfg %r cb %s: %s callback returned %r at offset %r but the result has %r there\n result %r' % (
                abbr, cfg, flavour, kind, ret, offset, out[offset:offset + len(ret)] if isinstance(offset, int) else None, core.short(out, 300)))
            return
        if offset != total:
            rec.fail('callback-offset:' + kind, 'abbr %r: offsets are not the running length of the returned strings (%d vs %d)' % (abbr, offset, total))
            return
        total += len(ret)
        k = bisect.bisect_right(nls, offset - len(nl)) if nls else 0
        # newline strings that END at or before offset
        k = sum(1 for p in nls[:k + 1] if p + len(nl) <= offset)
        exp_line = k
        last = max([p + len(nl) for p in nls if p + len(nl) <= offset], default=0)
        exp_col = offset - last
        if line != exp_line:
            rec.fail('callback-line:' + kind, 'abbr %r cfg %r cb %s: %s callback for %r at offset %d reported line %r, expected %d\n result %r' % (abbr, cfg, flavour, kind, ret, offset, line, exp_line, core.short(out, 300)))
            return
        if column != exp_col:
            rec.fail('callback-column:' + kind, 'abbr %r cfg %r cb %s: %s callback for %r at offset %d reported column %r, expected %d\n result %r' % (abbr, cfg, flavour, kind, ret, offset, column, exp_col, core.short(out, 300)))
            return
    if total != len(out):
        rec.fail('callback-coverage', 'abbr %r: returned strings sum to %d characters, result has %d' % (abbr, total, len(out)))


# ---------------------------------------------------------------------------------------------- numbering (reference model)
MARK = lambda index, placeholder, **kw: '⟦%d:%s⟧' % (index, placeholder)
FRX = re.compile(M.F_OPEN + r'(\d+)' + M.F_SEP + '([^' + M.F_CLOSE + ']*)' + M.F_CLOSE)


class Counter:
    def __init__(self):
        self.field = 1

    def value(self, s):
        "string with field sentinels → marked text; empty → caret"
        if not s:
            out = '⟦%d:⟧' % self.field
            self.field += 1
            return out
        largest = -1
        def rep(m):
            nonlocal largest
            n = int(m.group(1))
            largest = max(largest, n)
            return '⟦%d:%s⟧' % (self.field + n, m.group(2))
        out = FRX.sub(rep, s)
        if largest != -1:
            self.field += largest + 1
        return out


def render_marked(nodes, o, parent_name='', ctr=None):
    ctr = ctr or Counter()
    out = []
    for n in nodes:
        if n.name is None and not n.attrs:
            out.append(ctr.value(n.text) if n.text else '')
            out.append(render_marked(n.children, o, parent_name, ctr))
            continue
        name = n.name
        if name is None:
            p = (parent_name or '').lower()
            name = M.IMPLICIT.get(p, 'span' if p in M.INLINE else 'div')
        out.append('<' + name)
        for a in M.merge_attrs(n.attrs, False):
            val = a['value']
            if a['impl'] and a['vt'] == 'raw' and not val:
                continue
            aname = (o.get('markup.attributes') or {}).get(a['name']) or a['name']
            lq, rq = ('{', '}') if a['vt'] == 'expr' else ('"', '"')
            is_bool = a['bool'] or a['name'].lower() in M.BOOLEAN_ATTRS
            if is_bool and not val:
                out.append(' %s=%s%s%s' % (aname, lq, aname, rq))
            else:
                out.append(' %s=%s%s%s' % (aname, lq, ctr.value(val or ''), rq))
        if n.sc and not n.children and not n.text:
            out.append({'html': '', 'xhtml': ' /', 'xml': '/'}[o.get('output.selfClosingStyle', 'html')] + '>')
        else:
            out.append('>')
            if n.text:
                out.append(ctr.value(n.text))
            out.append(render_marked(n.children, o, name, ctr))
            if not n.text and not n.children:
                out.append(ctr.value(''))
            out.append('</' + name + '>')
    return ''.join(out)


SYNTAX_OPTS = {'jsx': {'markup.attributes': {'class': 'className', 'for': 'htmlFor'}}, 'xml': {'output.selfClosingStyle': 'xml'}, 'html': {}, 'vue': {}, 'svelte': {}}
WS = re.compile(r'\s+')


def check_numbering(case, rec):
    script, syntax, opts = case['script'], case['syntax'], case.get('options') or {}
    if G.uses_snippet_key(script, syntax):
        rec.skip('name-is-snippet-key')
        return
    text = M.ser_script(script)
    nodes = M.unroll(M.interpret(script))
    o = dict(SYNTAX_OPTS.get(syntax, {}))
    o.update(opts)
    exp = render_marked(nodes, o)
    if exp.count('⟦') >= 2:
        rec.nontrivial()
    if M.F_OPEN in M.ser_script(script) or '${' in text:
        rec.cls('explicit-fields')
    for fmt in (False, True):
        c = {'syntax': syntax, 'snippets': dict(G.NEUTRALISE), 'options': dict(opts)}
        c['options']['output.format'] = fmt
        c['options']['output.field'] = MARK
        rec.evals()
        try:
            with guard():
                got = expand(text, c)
        except Exception as e:
            rec.fail(core.exc_bucket(e), '%r: %s: %s' % (text, type(e).__name__, core.short(str(e), 150)))
            return
        # multi-line text is laid out on its own lines even with formatting off: white-space-insensitive there
        same = (WS.sub('', got) == WS.sub('', exp)) if (fmt or '\n' in text) else got == exp
        if not same:
            gi = [int(x) for x in re.findall(r'⟦(\d+):', got)]
            ei = [int(x) for x in re.findall(r'⟦(\d+):', exp)]
            kind = 'marker-numbers' if gi != ei else 'marker-placement'
            rec.fail('tabstops:' + kind, 'abbr %r syntax %s format %s\n expected %r\n got      %r' % (text, syntax, fmt, exp, got))
            return


    # the indentation-based syntaxes number the same values in the same document order
    ei = [int(x) for x in re.findall(r'⟦(\d+):', exp)]
    if syntax == 'html' and not opts:
        for syn in ('haml', 'pug', 'slim'):
            rec.evals()
            try:
                with guard():
                    got = expand(text, {'syntax': syn, 'snippets': dict(G.NEUTRALISE), 'options': {'output.field': MARK}})
            except Exception as e:
                rec.fail(core.exc_bucket(e), '%r (%s): %s: %s' % (text, syn, type(e).__name__, core.short(str(e), 150)))
                return
            gi = [int(x) for x in re.findall(r'⟦(\d+):', got)]
            if gi != ei:
                rec.fail('tabstops:marker-numbers:indent-syntax', 'abbr %r syntax %s: marker indices %r, expected %r\n output %r' % (text, syn, gi, ei, got))
                return


# ---------------------------------------------------------------------------------------------- disjoint index sets (aliases, any html-family syntax)
ATTR = re.compile(r'''([^\s=<>/"'{}]+)(?:=("[^"]*"|'[^']*'|\{(?:[^{}]|\{[^{}]*\})*\}|[^\s"'<>{}]+))?''')


def check_disjoint(case, rec):
    abbr, syntax = case['abbr'], case['syntax']
    rec.evals()
    try:
        with guard():
            out = expand(abbr, {'syntax': syntax, 'options': dict(case.get('options') or {}, **{'output.field': lambda index, placeholder, **kw: '⟦%d⟧' % index, 'output.format': bool(case.get('format'))})})
    except Exception as e:
        rec.fail(core.exc_bucket(e), '%r: %s: %s' % (abbr, type(e).__name__, core.short(str(e), 150)))
        return
    sets = []
    for t in L.lex(out):
        if t[0] == 'tag':
            for m in ATTR.finditer(t[2]):
                if m.group(2):
                    idx = [int(x) for x in re.findall(r'⟦(\d+)⟧', m.group(2))]
                    if idx:
                        sets.append((idx, 'attribute %s of <%s>' % (m.group(1), t[1])))
        elif t[0] in ('text', 'comment'):
            # (a generated comment that repeats an id/class value with fields is a value of its own)
            idx = [int(x) for x in re.findall(r'⟦(\d+)⟧', t[1])]
            if idx:
                sets.append((idx, '%s %r' % (t[0], t[1].strip()[:30])))
    if sum(len(s[0]) for s in sets) >= 2:
        rec.nontrivial()
    prev_max = 0
    prev_where = None
    for idx, where in sets:
        if min(idx) <= prev_max:
            rec.fail('tabstops:collide-across-values', 'abbr %r syntax %s: %s uses indices %r but %s already reached %d\n output %r' % (abbr, syntax, where, idx, prev_where, prev_max, core.short(out, 400)))
            return
        prev_max = max(idx)
        prev_where = where
    if sets and sets[0][0] and min(sets[0][0]) < 1:
        rec.fail('tabstops:index-below-1', 'abbr %r: first marker %r' % (abbr, sets[0][0]))


CHECKS = {'positions': check_positions, 'numbering': check_numbering, 'disjoint': check_disjoint}
SHRINK = {'positions'}


# ---------------------------------------------------------------------------------------------- generators
def field_atoms():
    return st.one_of(st.builds(lambda n: ['f', n, None], st.integers(0, 3)), st.builds(lambda n, p: ['f', n, p], st.integers(0, 3), st.sampled_from(['ph', 'x', 'name'])))


def value_with_fields(alpha='abc'):
    lit = st.text(alphabet=alpha, min_size=1, max_size=3)
    return st.lists(st.one_of(lit, field_atoms()), min_size=1, max_size=3).map(_merge)


def _merge(v):
    out = []
    for a in v:
        if isinstance(a, str) and out and isinstance(out[-1], str):
            out[-1] += a
        else:
            out.append(a)
    return out


@st.composite
def script13(draw, depth=0):
    names = G.NEUTRAL + ['div', 'ul', 'p', 'span', 'em', 'section', 'b']
    n = draw(st.integers(1, 5 if depth == 0 else 3))
    sc = []
    for k in range(n):
        if depth < 2 and draw(st.floats(0, 1)) < 0.12:
            it = {'g': draw(script13(depth + 1)), 'r': draw(st.sampled_from([None, None, 2]))}
        else:
            nameless = draw(st.floats(0, 1)) < 0.15
            ms = []
            for _ in range(draw(st.integers(1 if nameless else 0, 3))):
                kind = draw(st.sampled_from(['cls', 'id', 'empty', 'raw', 'dqf', 'bool', 'dqe', 'idf', 'clsf']))
                if kind == 'cls':
                    ms.append(['.', [draw(st.sampled_from(['a', 'b', 'c']))]])
                elif kind == 'id':
                    ms.append(['#', [draw(st.sampled_from(['i', 'j']))]])
                elif kind in ('idf', 'clsf'):
                    # explicit fields inside an id / class value (the indentation syntaxes print these through their own `#id.class` code path)
                    ms.append(['a', 'id' if kind == 'idf' else 'class', 'dq', draw(value_with_fields()), False])
                elif kind == 'empty':
                    ms.append(['a', draw(st.sampled_from(['t', 'title', 'href'])), 'none', None, False])
                elif kind == 'raw':
                    ms.append(['a', draw(st.sampled_from(['u', 'data-a'])), 'raw', [draw(st.sampled_from(['1', 'v']))], False])
                elif kind == 'dqf':
                    ms.append(['a', draw(st.sampled_from(['w', 'data-b', 'src'])), 'dq', draw(value_with_fields()), False])
                elif kind == 'dqe':
                    ms.append(['a', draw(st.sampled_from(['alt', 'rel'])), 'dq', [], False])
                else:
                    ms.append(['a', draw(st.sampled_from(['d', 'disabled'])), 'bool' if draw(st.booleans()) else 'none', None, False])
            # one mention per attribute name (merging is C03's business)
            seen = set()
            uniq = []
            # id/class first (stable): the indentation syntaxes print them before every other attribute, so only then is the document order
            # of the values the same in all syntaxes
            ms = [m for m in ms if m[0] in '#.' or (m[0] == 'a' and m[1] in ('id', 'class'))] + [m for m in ms if not (m[0] in '#.' or (m[0] == 'a' and m[1] in ('id', 'class')))]
            for m in ms:
                key = 'id' if m[0] == '#' else (m[1] if m[0] == 'a' else None)
                if key is not None and key in seen:
                    continue
                seen.add(key)
                uniq.append(m)
            it = {'n': None if nameless else [draw(st.sampled_from(names))], 'm': uniq, 'x': None, 'r': None, 'sc': False}
            r = draw(st.floats(0, 1))
            if r < 0.2:
                it['x'] = [draw(st.sampled_from(['t', 'text']))]
            elif r < 0.4:
                it['x'] = draw(value_with_fields('xyz'))
                it['_leaf'] = True
            elif r < 0.47:
                # one value spanning two or three lines, fields on any of them (relative numbering must hold across the lines)
                v1, v2 = draw(value_with_fields('xyz')), draw(value_with_fields('uvw'))
                it['x'] = v1 + ['\n'] + v2 + (['\n', 'last'] if draw(st.booleans()) else [])
                it['_leaf'] = True
            elif r < 0.55:
                it['sc'] = True
            if draw(st.floats(0, 1)) < 0.2:
                it['r'] = draw(st.integers(1, 3))
        sc.append(it)
        if k < n - 1:
            ops = ['+', '+', '^', '^^']
            if 'g' not in it and not it['sc'] and not it.pop('_leaf', False):
                ops += ['>', '>', '>', '>']
            it.pop('_leaf', None) if isinstance(it, dict) else None
            sc.append(draw(st.sampled_from(ops)))
        elif isinstance(it, dict):
            it.pop('_leaf', None)
    return sc


def numbering_strategy():
    opts = st.fixed_dictionaries({}, optional={'output.selfClosingStyle': st.sampled_from(['html', 'xhtml', 'xml'])})
    return st.builds(lambda sc, s, o: {'script': sc, 'syntax': s, 'options': o}, script13(), st.sampled_from(['html', 'html', 'xml', 'jsx', 'vue', 'svelte']), opts)


def positions_strategy():
    out_opts = st.fixed_dictionaries({}, optional={
        'output.newline': st.sampled_from(['\n', '\r\n', '\r']), 'output.indent': st.sampled_from(['\t', '  ', '']), 'output.baseIndent': st.sampled_from(['', '  ', '\t\t']),
        'output.format': st.booleans(), 'output.formatLeafNode': st.booleans(), 'comment.enabled': st.booleans(), 'output.inlineBreak': st.integers(0, 3),
        'output.selfClosingStyle': st.sampled_from(['html', 'xhtml', 'xml']), 'bem.enabled': st.booleans()})
    texts = st.one_of(st.none(), st.none(), st.sampled_from(['one', 'a < b', 'l1\nl2', 'l1\r\nl2\r\n', '<b>x</b>\nnext']),
                      st.lists(st.sampled_from(['x', 'y < z', '', ' w ', 'two words']), min_size=1, max_size=4))
    aliases = ['a', 'img', 'link:css', 'select', 'input', 'btn', 'a:link', 'meta:vp', '!', 'ul+', 'c', 'cc:ie', 'script:src', 'form:post', 'lorem3']

    def m_case(sc, alias_pos, alias, syntax, o, text, cb, star):
        t = M.ser_script(sc)
        if alias_pos is not None:
            t = t + ('>' if alias_pos else '+') + alias
        if star and text is not None:
            t = t + '+x9*>x8'
        cfg = {'syntax': syntax, 'options': o}
        if text is not None:
            cfg['text'] = text
        return {'abbr': t, 'cfg': cfg, 'cb': cb}
    markup = st.builds(m_case, script13(), st.one_of(st.none(), st.booleans()), st.sampled_from(aliases), st.sampled_from(MARKUP_SYNTAXES), out_opts, texts,
                       st.sampled_from(['plain', 'escape', 'upper', 'bracket']), st.booleans())
    css_abbr = st.one_of(st.sampled_from(A.CSS_SEEDS + ['m10+p20+bd', 'pos+d:n+c#f.5!', '@m', '@kf', 'bd+lg(to right, #0, #f00.5)', 'anim', 'trs']),
                         st.lists(st.sampled_from(['m10', 'p', 'bd', 'c#fc0', 'fz1.5', 'pos:a', 'w100p', 'anim', '@f', 'trf:rx', 'bg', 'cnt']), min_size=1, max_size=5).map('+'.join))
    css_opts = st.fixed_dictionaries({}, optional={'output.newline': st.sampled_from(['\n', '\r\n']), 'output.format': st.booleans(), 'output.baseIndent': st.sampled_from(['', '  ']),
                                                   'stylesheet.json': st.booleans(), 'output.indent': st.sampled_from(['\t', '  '])})
    css = st.builds(lambda a, s, o, cb: {'abbr': a, 'cfg': {'type': 'stylesheet', 'syntax': s, 'options': o}, 'cb': cb}, css_abbr,
                    st.sampled_from(['css', 'scss', 'sass', 'less', 'stylus']), css_opts, st.sampled_from(['plain', 'upper', 'bracket']))
    return st.one_of(markup, markup, markup, css)


def shard_positions(ctx, shard, nshards, n):
    ctx.run_hypothesis('positions', positions_strategy(), n, seed_key=shard)


def shard_numbering(ctx, shard, nshards, n):
    ctx.run_hypothesis('numbering', numbering_strategy(), n, seed_key=100 + shard)


def alias_cases():
    for syntax in ('html', 'xsl'):
        table = Config({'syntax': syntax}).snippets
        keys = sorted(table)
        for i, k in enumerate(keys):
            if k.startswith('lorem'):
                continue
            for fmt in (False, True):
                yield {'abbr': k, 'syntax': syntax, 'format': fmt}
                yield {'abbr': '%s+%s>%s' % (k, keys[(i * 7 + 3) % len(keys)], keys[(i * 13 + 5) % len(keys)]), 'syntax': syntax, 'format': fmt}
            yield {'abbr': 'ul>li*2>%s[title]' % k, 'syntax': syntax, 'format': False}


@st.composite
def snippet_children_case(draw):
    """a text-only item whose value has 2–3 explicit fields and which has children (the library prints the children in place of the first
    field), followed by siblings that receive automatic tabstops: the remaining fields must not share a number with anything else"""
    pieces = []
    nf = draw(st.integers(2, 3))
    for k in range(nf):
        pieces.append(draw(st.sampled_from(['a ', 'x', '<!-- ', 'q: ', ''])) if k == 0 else draw(st.sampled_from([' b ', ' ', ' -- ', ', '])))
        n = draw(st.integers(0, 3))
        ph = draw(st.sampled_from([None, None, 'more', 'end']))
        pieces.append('${%d}' % n if ph is None else '${%d:%s}' % (n, ph))
    pieces.append(draw(st.sampled_from(['', ' z', ' -->'])))
    kids = draw(st.sampled_from(['p', 'p*2', 'p+b', 'img', 'a[title]', 'ul>li*2', 'p[title]{t}', 'x1[u=${1:v}]']))
    later = draw(st.lists(st.sampled_from(['a', 'img', 'b', 'i[title]', 'input', 'x2[u=${0} w=${1}]', '{k ${0}}']), min_size=1, max_size=3))
    before = draw(st.sampled_from(['', '', 'b+', 'img+']))
    form = draw(st.sampled_from(['group', 'group', 'climb', 'nested']))
    snippet = '{' + ''.join(pieces) + '}>' + kids
    if form == 'group':
        abbr = before + '(' + snippet + ')+' + '+'.join(later)
    elif form == 'climb':
        abbr = before + snippet + '^' * (kids.count('>') + 1) + '+'.join(later)
    else:
        abbr = 'div>' + before + '(' + snippet + ')+' + '+'.join(later)
    return {'abbr': abbr, 'syntax': draw(st.sampled_from(['html', 'html', 'xml', 'jsx'])), 'format': draw(st.booleans())}


def shard_snippet_children(ctx, shard, nshards, n):
    ctx.run_hypothesis('disjoint', snippet_children_case(), n, seed_key=300 + shard)
    ctx.run_hypothesis('disjoint', comment_field_case(), n, seed_key=400 + shard)


@st.composite
def comment_field_case(draw):
    "comment.enabled with id/class values that carry explicit fields: the closing comment repeats them and is followed by further tabstops"
    fld = lambda: draw(st.sampled_from(['${0}', '${1}', '${1:main}', '${2:a}-${1:b}', 'x${0}', '${3}']))
    def element():
        name = draw(st.sampled_from(['div', 'section', 'li', 'p']))
        how = draw(st.sampled_from(['id', 'class', 'both', 'plain']))
        s = name
        if how in ('id', 'both'):
            s += '[id=%s]' % fld()
        if how in ('class', 'both'):
            s += '[class=%s]' % fld()
        if how == 'plain':
            s += draw(st.sampled_from(['#k', '.c', '']))
        if draw(st.integers(0, 3)) == 0:
            s += '*2'
        return s
    n = draw(st.integers(1, 3))
    parts = [element() for _ in range(n)]
    tail = draw(st.sampled_from(['a', 'img', 'b[title]', 'input+a', 'i']))
    shape = draw(st.sampled_from(['siblings', 'nested', 'parent']))
    if shape == 'siblings':
        abbr = '+'.join(parts + [tail])
    elif shape == 'nested':
        abbr = ('>'.join(parts) + '^' * (len(parts) - 1) + tail) if len(parts) > 1 else (parts[0] + '+' + tail)
    else:
        abbr = 'ul>' + '+'.join(parts) + '^' + tail
    opts = {'comment.enabled': True}
    if draw(st.booleans()):
        opts['comment.after'] = draw(st.sampled_from(['\n<!-- /[#ID][.CLASS] -->', '<!-- /[#ID][.CLASS] -->', '\n<!-- [#ID] end -->']))
    return {'abbr': abbr, 'syntax': draw(st.sampled_from(['html', 'html', 'xml', 'jsx'])), 'format': draw(st.booleans()), 'options': opts}


def shard_aliases(ctx, shard, nshards):
    for case in core.sharded(alias_cases(), shard, nshards):
        ctx.rec.run_case(CHECKS, 'disjoint', case)
        # the same abbreviations also exercise the callback bookkeeping
        ctx.rec.run_case(CHECKS, 'positions', {'abbr': case['abbr'], 'cfg': {'syntax': case['syntax'], 'options': {'output.newline': '\r\n', 'output.baseIndent': '  '}}, 'cb': 'bracket'})


def run(ctx):
    ctx.run_parallel('shard_aliases')
    ctx.exhaustive('every key of the html and xsl snippet tables alone, in a sibling/child combination and inside a repeated parent (disjointness + callback positions)')
    ctx.run_parallel('shard_numbering', extra=(ctx.pick(250, 3000),))
    ctx.run_parallel('shard_positions', extra=(ctx.pick(300, 4000),))
    ctx.run_parallel('shard_snippet_children', extra=(ctx.pick(60, 1500),))
