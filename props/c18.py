"C18 — tokenizers are lossless: token spans tile the abbreviation"
import os
from hypothesis import strategies as st
from vlib import core, alphabets as A
from vlib.core import guard
from emmet.abbreviation import tokenize as mtok
from emmet.css_abbreviation import tokenize as ctok
from emmet.scanner import ScannerException

PROP_ID = 'C18'
RULE = ("case = (language ∈ {markup, css property mode, css value mode}, string). Layers: every string over the "
        "27-symbol markup / 23-symbol stylesheet alphabet up to a length bound (exhaustive), Hypothesis strings ≤ 60 over "
        "extended alphabets, every prefix of valid abbreviations and ≤3-edit mutants of them. Oracle: ScannerException "
        "with 0 ≤ pos ≤ len, or tokens with defined start/end, start < end, first start 0, contiguous, last end = len. "
        "Non-trivial: tokenized successfully into ≥ 3 tokens of ≥ 2 token types; distinct by (language, string).")
ASSUME = ["token classes expose integer .start/.end as in emmet/*/tokenizer/tokens.py",
          "ScannerException is the documented tokenizer error (emmet.scanner)"]

FN = {'markup': lambda s: mtok(s), 'css': lambda s: ctok(s), 'cssv': lambda s: ctok(s, True)}


def check_tile(case, rec, distinct=False):
    lang, s = case['lang'], case['s']
    rec.evals()
    try:
        with guard():
            toks = FN[lang](s)
    except ScannerException as e:
        rec.cls('scanner-error')
        if not isinstance(e.pos, int) or not (0 <= e.pos <= len(s)):
            rec.fail('errpos:' + lang, 'error position %r outside 0..%d' % (e.pos, len(s)))
        return
    except Exception as e:
        rec.fail(core.exc_bucket(e, 'exc:' + lang), '%s: %s' % (type(e).__name__, e))
        return
    if not isinstance(toks, list):
        rec.fail('type:' + lang, 'tokenize returned %r' % type(toks))
        return
    pos = 0
    dump = lambda: [(type(t).__name__, getattr(t, 'start', '?'), getattr(t, 'end', '?')) for t in toks]
    for t in toks:
        ty = type(t).__name__
        a, b = getattr(t, 'start', None), getattr(t, 'end', None)
        if not isinstance(a, int) or not isinstance(b, int) or isinstance(a, bool) or isinstance(b, bool):
            rec.fail('undefined-span:%s:%s' % (lang, ty), 'token %s has start=%r end=%r in %r' % (ty, a, b, dump()))
            return
        if a != pos:
            rec.fail('gap:%s:%s' % (lang, ty), 'token %s starts at %d, previous ended at %d: %r' % (ty, a, pos, dump()))
            return
        if b <= a:
            rec.fail('empty:%s:%s' % (lang, ty), 'token %s spans [%d,%d): %r' % (ty, a, b, dump()))
            return
        pos = b
    if pos != len(s):
        rec.fail('tail:' + lang, 'tokens end at %d, input length %d: %r' % (pos, len(s), dump()))
        return
    types = {type(t).__name__ for t in toks}
    if len(toks) >= 3 and len(types) >= 2:
        rec.nontrivial(distinct=distinct)
        rec.cls('tiled-nontrivial')
    else:
        rec.cls('tiled-trivial')


def check_tile_distinct(case, rec):
    check_tile(case, rec, True)


SHRINK = {'tile', 'tile-x'}
CHECKS = {'tile': check_tile, 'tile-x': check_tile_distinct}


def shard_exhaustive(ctx, shard, nshards, lang, maxlen):
    alpha = A.MARKUP if lang == 'markup' else A.CSS_ABBR
    # shard on the first character(s) so that every string is produced exactly once
    ctx.run_cases('tile-x', ({'lang': lang, 's': s} for s in core.sharded(core.all_strings(alpha, maxlen), shard, nshards)))


def shard_random(ctx, shard, nshards, n):
    rng = ctx.rng('c18', shard)
    seeds = {'markup': A.MARKUP_SEEDS + A.test_seeds()['markup'], 'css': A.CSS_SEEDS + A.test_seeds()['css']}
    seeds['cssv'] = seeds['css']
    alpha = {'markup': A.MARKUP_X, 'css': A.CSS_ABBR_X, 'cssv': A.CSS_ABBR_X}
    def gen():
        for i in range(n):
            lang = ('markup', 'css', 'cssv')[i % 3]
            s = rng.choice(seeds[lang])
            if rng.random() < 0.3:
                s = s[:rng.randrange(len(s) + 1)]
            else:
                s = A.mutate(rng, s, alpha[lang])
            yield {'lang': lang, 's': s}
    ctx.run_cases('tile', gen())


def run(ctx):
    L = ctx.pick(4, 5)
    for lang in ('markup', 'css', 'cssv'):
        ctx.run_parallel('shard_exhaustive', extra=(lang, L))
        ctx.exhaustive('all strings of length ≤ %d over the %s alphabet (%d symbols), mode %s' % (
            L, 'markup' if lang == 'markup' else 'stylesheet', len(A.MARKUP if lang == 'markup' else A.CSS_ABBR), lang))
    # all prefixes of valid abbreviations
    seeds = [('markup', s) for s in A.MARKUP_SEEDS + A.test_seeds()['markup']] + \
            [(l, s) for s in A.CSS_SEEDS + A.test_seeds()['css'] for l in ('css', 'cssv')]
    ctx.run_cases('tile', ({'lang': l, 's': s[:k]} for l, s in seeds for k in range(len(s) + 1)))
    ctx.run_parallel('shard_random', extra=(ctx.pick(2000, 40000),))
    strat = st.one_of(
        st.builds(lambda s: {'lang': 'markup', 's': s}, st.text(alphabet=A.MARKUP_X, max_size=60)),
        st.builds(lambda l, s: {'lang': l, 's': s}, st.sampled_from(['css', 'cssv']), st.text(alphabet=A.CSS_ABBR_X, max_size=60)),
        st.builds(lambda l, s: {'lang': l, 's': s}, st.sampled_from(['markup', 'css', 'cssv']), st.text(max_size=30)),
    )
    ctx.run_hypothesis('tile', strat, ctx.pick(3000, 60000))
    if ctx.thorough or os.environ.get('VERIF_FUZZ'):
        ctx.run_atheris('tile', ctx.pick(20000, 400000))


# coverage-guided layer (thorough tier): byte 0 selects the language, the rest is the string
def _fz_decode(data):
    if not data:
        return None
    from vlib.fuzz import text_of
    return {'lang': ('markup', 'css', 'cssv')[data[0] % 3], 's': text_of(data[1:])}


def _fz_seeds():
    ts = A.test_seeds()
    for s in A.MARKUP_SEEDS + ts['markup']:
        yield b'\x00' + s.encode('utf-8')
    for s in A.CSS_SEEDS + ts['css']:
        yield b'\x01' + s.encode('utf-8')
        yield b'\x02' + s.encode('utf-8')


FUZZ = {'tile': {'decode': _fz_decode, 'seeds': _fz_seeds, 'max_len': 48,
                 'dict': ['${1:', '${', '$#', '$@-', '$@^', '*3', '#f', '!important', '--', '@@', '\\\\', '{', '}', '[a="', "='", '(', ')']}}
