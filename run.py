#!/usr/bin/env python
"""
run.py <ID> [quick|thorough]      run the check for one property
run.py <ID> --replay <file>       re-execute one saved case without any generator
run.py --selftest <ID> [name]     apply each sensitivity mutant of <ID> to a scratch copy, require exit 1
Exit status: 0 property held on everything explored, 1 violation (VIOLATION line printed), 2 harness error.
"""
import os, sys, json, importlib, traceback

sys.dont_write_bytecode = True
VERIF = os.path.dirname(os.path.abspath(__file__))
REPO = os.environ.get('VERIF_REPO', '/repo')
sys.path.insert(0, VERIF)
sys.path.insert(0, REPO)
deps = os.path.join(VERIF, '.deps')
if os.path.isdir(deps):
    sys.path.append(deps)


def load(prop_id):
    import emmet
    here = os.path.realpath(os.path.dirname(os.path.dirname(emmet.__file__)))
    if here != os.path.realpath(REPO):
        raise SystemExit('harness error: emmet imported from %s, not from %s' % (here, REPO))
    return importlib.import_module('props.' + prop_id.lower())


def main(argv):
    from vlib import core
    if len(argv) >= 2 and argv[0] == '--selftest':
        from vlib import selftest
        return selftest.main(argv[1:])
    if not argv:
        print(__doc__)
        return 2
    prop_id = argv[0].upper()
    seed = int(os.environ.get('VERIF_SEED', '1') or '1')
    core.install_watchdog()
    mod = load(prop_id)
    if len(argv) >= 3 and argv[1] == '--replay':
        doc = json.load(open(argv[2], encoding='utf-8'))
        rec = core.Rec(prop_id)
        new = []
        for it in (doc if isinstance(doc, list) else [doc]):
            new += rec.run_case(mod.CHECKS, it['kind'], it['case'])
            for b, d in rec._case_fails:
                print('FAIL bucket=%s\n  case=%s\n  detail=%s' % (b, core.canon(it['case']), d))
        if new:
            print('VIOLATION property=%s replay=%s' % (prop_id, os.path.abspath(argv[2])))
            return 1
        print('replay: no (unlisted) violation')
        return 0
    tier = argv[1] if len(argv) >= 2 else os.environ.get('VERIF_TIER', 'quick')
    if tier not in ('quick', 'thorough'):
        print('unknown tier %r' % tier)
        return 2
    ctx = core.Ctx(mod, tier, seed)
    core.run_corpus(ctx)
    mod.run(ctx)
    return core.finish(ctx)


if __name__ == '__main__':
    try:
        rc = main(sys.argv[1:])
    except SystemExit:
        raise
    except BaseException:
        traceback.print_exc()
        print('HARNESS-ERROR (exit 2): the machinery failed; this is not a verdict about the property')
        rc = 2
    sys.stdout.flush()
    os._exit(rc)
