#!/bin/bash
# offline setup: make sure an interpreter with hypothesis can import the repository's package
here="$(cd "$(dirname "${BASH_SOURCE[0]}")" && pwd)"
export PIP_NO_INDEX=1
if /venv/bin/python -c 'import hypothesis' >/dev/null 2>&1; then
    echo "setup: hypothesis present in /venv"
else
    /venv/bin/pip install --no-index --find-links /opt/veriftools/wheels --target "$here/.deps" hypothesis >/dev/null 2>&1 \
        && echo "setup: hypothesis installed into $here/.deps" \
        || echo "setup: falling back to python3-vt"
fi
if PYTHONPATH="$here/.deps" /venv/bin/python -c 'import atheris' >/dev/null 2>&1; then
    echo "setup: atheris present"
else
    /venv/bin/pip install --no-index --find-links /opt/veriftools/wheels --target "$here/.deps" atheris >/dev/null 2>&1 \
        && echo "setup: atheris installed into $here/.deps" \
        || echo "setup: atheris not installable (thorough tiers skip the coverage-guided layer)"
fi
mkdir -p "$here/evidence" "$here/replay"
"$here/check" C18 --replay "$here/corpus/C18/custom-property.json" >/dev/null 2>&1
rc=$?
if [ $rc -ne 0 ] && [ $rc -ne 1 ]; then echo "setup: launcher cannot run (rc=$rc)"; exit 1; fi
echo "setup: ok"
