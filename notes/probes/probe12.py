import sys, random, collections
sys.path.insert(0, '/repo')
from emmet import html_matcher
from emmet.action_utils import get_open_tag, select_item_html
VOID = ['br', 'img', 'input', 'hr']
NAMES = ['div', 'p', 'a', 'ul', 'li', 'x-y', 'ns:t', 'span']
class El:
    def __init__(s): s.name=None; s.kind=None; s.open=None; s.close=None; s.children=[]; s.attrs=[]; s.parent=None
def gen(rnd, xml):
    out = []
    els = []
    def pos(): return sum(len(x) for x in out)
    def attrs(el):
        n = rnd.choice([0,0,1,2,3])
        for i in range(n):
            out.append(rnd.choice([' ', '  ', '\n']))
            name = rnd.choice(['id', 'class', 'title', 'data-x', 'href', 'disabled', ':bind', '@click'])+ (str(i) if rnd.random()<0.3 else '')
            ns = pos(); out.append(name); ne = pos()
            kind = rnd.choice(['none', 'dq', 'sq', 'unq', 'expr'])
            if kind == 'none':
                el.attrs.append((name, ns, ne, None, None, None)); continue
            out.append('=')
            if kind == 'dq': v = '"' + rnd.choice(['', 'a b', 'x>y', "it's", 'a  b c', '</p>', '<b>']) + '"'
            elif kind == 'sq': v = "'" + rnd.choice(['', 'a b', 'x>y', 'say "hi"', '<i>']) + "'"
            elif kind == 'unq': v = rnd.choice(['a', 'foo', '12', 'a.b', '#x'])
            else: v = '{' + rnd.choice(['a', 'a>b', '{x}', '"}"', 'f(1)']) + '}'
            vs = pos(); out.append(v); ve = pos()
            el.attrs.append((name, ns, ne, v, vs, ve))
    def node(depth, parent):
        r = rnd.random()
        if r < 0.15: out.append(rnd.choice(['text', ' ', '\n', 'a > b', 'x'])); return
        if r < 0.22: out.append('<!--' + rnd.choice([' c ', '<div>', '</p>', '<br>', '-- >']) + '-->'); return
        if r < 0.27: out.append('<![CDATA[' + rnd.choice(['<div>', ']]', '</a>']) + ']]>'); return
        if r < 0.30: out.append('<?' + rnd.choice(['xml v="1"', 'php echo "<p>" ']) + '?>'); return
        el = El(); el.parent = parent
        if r < 0.36 and not xml:
            el.name = rnd.choice(['script', 'style']); el.kind = 'special'
            s = pos(); out.append('<' + el.name); attrs(el) if False else None; out.append('>'); el.open = (s, pos())
            out.append(rnd.choice(['', 'var a = "<div>";', 'if (a</b>) {}', '<p>', 'x<y']))
            s = pos(); out.append('</' + el.name + '>'); el.close = (s, pos())
            els.append(el); parent.children.append(el); return
        if r < 0.5:
            el.name = rnd.choice(VOID); el.kind = 'void'
            s = pos(); out.append('<' + el.name); attrs(el); out.append(rnd.choice(['', ' ']) + '>'); el.open = (s, pos())
            if xml:
                # in xml mode void needs close
                s = pos(); out.append('</' + el.name + '>'); el.close = (s, pos()); el.kind='pair'
            els.append(el); parent.children.append(el); return
        if r < 0.62:
            el.name = rnd.choice(NAMES); el.kind = 'self'
            s = pos(); out.append('<' + el.name); attrs(el); out.append(rnd.choice(['/', ' /']) + '>'); el.open = (s, pos())
            els.append(el); parent.children.append(el); return
        el.name = rnd.choice(NAMES); el.kind = 'pair'
        s = pos(); out.append('<' + el.name); attrs(el); out.append(rnd.choice(['', ' ', '\n']) + '>'); el.open = (s, pos())
        els.append(el); parent.children.append(el)
        if depth < 4:
            for _ in range(rnd.choice([0,1,1,2,3])): node(depth+1, el)
        s = pos(); out.append('</' + el.name + '>'); el.close = (s, pos())
    root = El()
    for _ in range(rnd.randint(1,3)): node(0, root)
    return ''.join(out), els, root
def rng(el): return (el.open[0], el.close[1] if el.close else el.open[1])
fails = collections.OrderedDict()
def rec(k, *a):
    if k not in fails or len(a[0]) < len(fails[k][0]): fails[k] = a
rnd = random.Random(7)
N=0
for it in range(3000):
    xml = rnd.random() < 0.3
    src, els, root = gen(rnd, xml)
    opt = {'xml': True} if xml else None
    for pos in range(0, len(src)+1):
        N+=1
        enc = [e for e in els if rng(e)[0] < pos < rng(e)[1]]
        enc.sort(key=lambda e: rng(e)[1]-rng(e)[0])
        # special elements' inner content ... enc fine
        m = html_matcher.match(src, pos, opt)
        exp = enc[0] if enc else None
        got = (m.name, m.open, m.close) if m else None
        want = (exp.name, exp.open, exp.close) if exp else None
        if got != want: rec('match', src, pos, got, want, xml)
        elif m:
            ga = [(a.name, a.name_start, a.name_end, a.value, a.value_start, a.value_end) for a in m.attributes]
            if ga != exp.attrs: rec('match-attrs', src, pos, ga, exp.attrs)
        o = html_matcher.balanced_outward(src, pos, opt)
        got = [(x.name, x.open, x.close) for x in o]
        want = [(e.name, e.open, e.close) for e in enc]
        if got != want: rec('outward', src, pos, got, want, xml)
print(N)
for k, v in fails.items(): print(k, v)
