import sys, traceback, gc
sys.path.insert(0, '/repo')
import emmet
from emmet import expand
from emmet.config import Config
def t(label, f):
    try:
        r = f()
        print(f"{label!s:45} -> {r!r}")
    except Exception as e:
        print(f"{label!s:45} !! {type(e).__name__}: {getattr(e,'message',None) or e} pos={getattr(e,'pos',None)}")

# C08: failed call wipes text
cfg = {'text': 'hello', 'snippets': {'bad': 'a['}}
t("ok before", lambda: expand('p', cfg))
t("bad", lambda: expand('bad', cfg))
print(cfg)
t("after", lambda: expand('p', cfg))
cfg2 = {}
expand('p', cfg2); print('cfg2', cfg2)
print('default arg', emmet.expand.__defaults__)
# cache leak
cache = {}
a = {'type':'stylesheet', 'cache': cache, 'snippets': {'foo': 'margin:10'}, 'options': {'stylesheet.intUnit': 'pt'}}
b = {'type':'stylesheet', 'cache': cache, 'snippets': {'foo': 'margin:10'}, 'options': {'stylesheet.intUnit': 'px'}}
t('a foo', lambda: expand('foo', a))
t('b foo', lambda: expand('foo', b))
t('b foo nocache', lambda: expand('foo', {k:v for k,v in b.items() if k!='cache'}))
# cache different snippets
c = {'type':'stylesheet', 'cache': cache, 'snippets': {'foo': 'padding:10'}}
t('c foo', lambda: expand('foo', c))
# BEM leak
from emmet.markup.addon import bem
print('bem defaults', [len(d) if isinstance(d, dict) else d for d in bem.get_block_name.__defaults__])
expand('div.b>div.-e', {'options': {'bem.enabled': True}})
print('bem defaults', [len(d) if isinstance(d, dict) else d for d in bem.get_block_name.__defaults__])
expand('div.b>div.-e', {'options': {'bem.enabled': True}})
print('bem defaults', [len(d) if isinstance(d, dict) else d for d in bem.get_block_name.__defaults__])
# Config object reuse with text
cf = Config({'text': ['a','b']})
t('cfg1', lambda: expand('ul>li*', cf))
t('cfg2', lambda: expand('ul>li*', cf))
