import sys, itertools, random, collections, traceback
sys.path.insert(0, sys.argv[1])
import emmet
from emmet import expand
from emmet.scanner import ScannerException
from emmet.token_scanner import TokenScannerException
buckets = collections.OrderedDict()
cnt = collections.Counter()
def run(s, cfg, tag):
    try:
        r = expand(s, dict(cfg))
        cnt['ok'] += 1
        if not isinstance(r, str): buckets.setdefault(('nonstr', tag), (s, cfg))
    except (ScannerException, TokenScannerException) as e:
        cnt['parse'] += 1
        if e.pos is not None and not (0 <= e.pos <= len(s)):
            buckets.setdefault(('errpos', tag), (s, e.pos))
    except RecursionError as e:
        buckets.setdefault(('recursion', tag), (s,))
    except Exception as e:
        tb = traceback.extract_tb(e.__traceback__)
        fr = [f for f in tb if '/emmet/' in f.filename][-1]
        key = (type(e).__name__, fr.filename.split('/emmet/')[-1], fr.name, fr.lineno)
        cnt['internal'] += 1
        if key not in buckets or len(s) < len(buckets[key][0]): buckets[key] = (s, tag, str(e)[:60])
malpha = list("aA1$#@-.*>+^()[]{}'\"= \\/:!")
cfgs = [({}, 'html'), ({'syntax': 'jsx'}, 'jsx'), ({'text': 'T'}, 'text'), ({'text': ['x', '', 'y']}, 'textlist'), ({'syntax': 'pug'}, 'pug'),
        ({'options': {'bem.enabled': True, 'comment.enabled': True}}, 'bemcomment'), ({'syntax':'xsl'}, 'xsl'), ({'context': {'name': 'ul', 'attributes': {'class': 'b'}}, 'options': {'bem.enabled': True}}, 'ctx')]
for L in range(0, 4):
    for tup in itertools.product(malpha, repeat=L):
        s = ''.join(tup)
        for cfg, tag in cfgs: run(s, cfg, tag)
calpha = list("aA1$#@-.,+()'\"% !:/tf{}")
ccfgs = [({'type': 'stylesheet'}, 'css'), ({'syntax': 'stylus'}, 'stylus'), ({'type': 'stylesheet', 'context': {'name': 'margin'}}, 'valuectx'), ({'type': 'stylesheet', 'context': {'name': '@@section'}}, 'section'), ({'type':'stylesheet', 'options': {'stylesheet.json': True}}, 'json')]
for L in range(0, 4):
    for tup in itertools.product(calpha, repeat=L):
        s = ''.join(tup)
        for cfg, tag in ccfgs: run(s, cfg, tag)
rnd = random.Random(1)
seeds = ["ul#nav>li.item$*4>a{Item $}", "div>(header>ul>li*2>a)+footer>p", "a[href='x' title=\"y\"]{t}", "p>{Click }+a{here}+{ to continue}", "ul>li*>a", "input[disabled. foo=bar]/", "Foo.Bar>Baz.{x}", "lorem10*3", "div.b_m>.-e"]
for i in range(30000):
    s = list(rnd.choice(seeds))
    for _ in range(rnd.randint(1, 3)):
        op = rnd.random()
        p = rnd.randrange(len(s) + 1)
        if op < 0.4: s.insert(p, rnd.choice(malpha))
        elif op < 0.7 and s: del s[min(p, len(s) - 1)]
        else: s = s[:p]
    cfg, tag = rnd.choice(cfgs)
    run(''.join(s), cfg, tag)
print(cnt)
for k, v in buckets.items(): print(k, v)
