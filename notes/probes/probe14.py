import sys, random, collections, re
sys.path.insert(0, sys.argv[1] if len(sys.argv) > 1 else '/repo')
from emmet import extract, expand
rnd = random.Random(5)
NAMES = ['div', 'p', 'ul', 'li', 'span', 'x-y', 'h1', 'ns:el', 'A', 'td']
def attr_val(rnd):
    k = rnd.random()
    if k < 0.3: return rnd.choice(['x', 'foo', '12', 'a.b', 'a-b', '#', 'a/b'])
    if k < 0.6: return '"' + rnd.choice(['', 'a b', 'x>y', "it's", '<', '(', ')', '[', '{', 'a]', '}', 'a=b']) + '"'
    if k < 0.8: return "'" + rnd.choice(['', 'a b', 'say "hi"', '>', ']']) + "'"
    return '{' + rnd.choice(['x', 'a.b', 'f(1)', 'a>b']) + '}'
def elem(rnd):
    s = rnd.choice(NAMES) if rnd.random() < 0.8 else ''
    for _ in range(rnd.choice([0,0,1,2])):
        k = rnd.random()
        if k < 0.3: s += '.' + rnd.choice(['a', 'b-c', 'item$', 'x_y'])
        elif k < 0.45: s += '#' + rnd.choice(['id', 'main'])
        else:
            attrs = []
            for _ in range(rnd.choice([1,1,2,3])):
                n = rnd.choice(['title', 'data-x', 'href', 'a', 'b.', '!c'])
                attrs.append(n if rnd.random() < 0.3 else n + '=' + attr_val(rnd))
            s += '[' + ' '.join(attrs) + ']'
    if not s: s = '.' + rnd.choice(['a', 'b'])
    if rnd.random() < 0.25: s += '{' + rnd.choice(['text', 'Hello world', 'a>b', '$', 'x+y', '[', ')', '(a)', '{x}', "it's", '"q"', '<b>', '<']) + '}'
    if rnd.random() < 0.25: s += '*' + str(rnd.randint(1, 12))
    if rnd.random() < 0.05: s += '/'
    return s
def abbr(rnd, depth=0):
    parts = [elem(rnd)]
    for _ in range(rnd.choice([0,1,1,2,3])):
        op = rnd.choice(['>', '+', '^', '>', '+', '^^'])
        if rnd.random() < 0.2 and depth < 2:
            g = '(' + abbr(rnd, depth+1) + ')' + ('*%d' % rnd.randint(2,3) if rnd.random()<0.4 else '')
            if op.startswith('^'): op = '+'
            parts.append(op + g)
            # after group only + or ^
            if rnd.random() < 0.5: parts.append(rnd.choice(['+', '^']) + elem(rnd))
        else:
            parts.append(op + elem(rnd))
    return ''.join(parts)
fails = collections.OrderedDict(); n=0; bad=0
lefts = ['', ' ', 'foo ', '<div>', '<p class="a">', '</b>', 'text\t', '<br/>', '<a href=x>', '<img src=a.png>', 'привет ', '<div data-a=1>', '= ', '{ ', 'return ']
rights = ['', ' ', ' foo', '<', '</p>', ')']
for i in range(20000):
    a = abbr(rnd)
    try:
        expand(a)
    except Exception as e:
        continue
    l = rnd.choice(lefts); r = rnd.choice(rights)
    line = l + a + r
    n += 1
    res = extract(line, len(l) + len(a), {'lookAhead': False})
    if not res or res.abbreviation != a or res.location != len(l):
        bad += 1
        got = res and res.abbreviation
        # classify
        k = 'none' if not res else ('short' if a.endswith(got) else 'other')
        key = (k, )
        if key not in fails or len(line) < len(fails[key][0]): fails[key] = (line, a, got)
print(n, bad)
for k, v in fails.items(): print(k, v)
