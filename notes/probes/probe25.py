import sys, itertools, collections
sys.path.insert(0, sys.argv[1])
from emmet import expand
BOOL = {'disabled'}
# mention: (text, name, value or None, flags)
M = [('.a', 'class', 'a', ''), ('.b', 'class', 'b', ''), ('#i', 'id', 'i', ''), ('[t=1]', 't', '1', ''), ('[t="2 x"]', 't', '2 x', ''), ('[t]', 't', None, ''),
     ('[class=c]', 'class', 'c', ''), ('[class]', 'class', None, ''), ('[d.]', 'd', None, 'b'), ('[d=v]', 'd', 'v', ''), ('[!t]', 't', None, 'i'), ('[!t=3]', 't', '3', 'i'), ('[disabled]', 'disabled', None, ''), ("[t='']", 't', '', 'q')]
def ref(ms, reverse, compact, style, quote, case):
    order = []; data = {}
    for text, name, value, fl in ms:
        if name not in data:
            data[name] = {'value': value, 'bool': 'b' in fl, 'imp': 'i' in fl, 'quoted': 'q' in fl}; order.append(name)
        else:
            d = data[name]
            if name == 'class':
                if d['value'] is not None and value is not None: d['value'] = d['value'] + ' ' + value if d['value'] else value  # glue only if prev non-empty
                elif d['value'] is None: d['value'] = value
            else:
                if not reverse:
                    d['value'] = value
                d['bool'] = d['bool'] or 'b' in fl; d['imp'] = d['imp'] or 'i' in fl
                d['quoted'] = 'q' in fl
    out = []
    q = "'" if quote == 'single' else '"'
    for name in order:
        d = data[name]; v = d['value']
        oname = name.upper() if case == 'upper' else name
        if d['imp'] and not v and not d['quoted']: continue
        isbool = d['bool'] or name.lower() in BOOL
        if isbool and not v:
            if not compact: out.append(' %s=%s%s%s' % (oname, q, oname, q))
            elif style == 'html': out.append(' ' + oname)
            else: out.append(' %s=%s%s' % (oname, q, q))
        else:
            out.append(' %s=%s%s%s' % (oname, q, v or '', q))
    return '<p%s></p>' % ''.join(out)
bad = collections.OrderedDict(); n = 0
for L in range(1, 5):
    for ms in itertools.product(M, repeat=L):
        if L == 4 and not (ms[0][1] == ms[2][1] or ms[1][1] == ms[3][1] or ms[0][1] == ms[3][1]): continue
        a = 'p' + ''.join(m[0] for m in ms)
        for reverse in (False, True):
            for compact, style, quote, case in ((False, 'html', 'double', ''), (True, 'html', 'single', 'upper'), (True, 'xml', 'double', '')):
                if reverse and any(m[3] == 'q' for m in ms): continue
                n += 1
                got = expand(a, {'options': {'output.format': False, 'output.reverseAttributes': reverse, 'output.compactBoolean': compact, 'output.selfClosingStyle': style, 'output.attributeQuotes': quote, 'output.attributeCase': case, 'output.booleanAttributes': ['disabled']}})
                exp = ref(ms, reverse, compact, style, quote, case)
                if got != exp:
                    k = (reverse, compact)
                    if k not in bad or len(a) < len(bad[k][0]): bad[k] = (a, got, exp)
print(n, len(bad))
for k, v in bad.items(): print(k, v)
