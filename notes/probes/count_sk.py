import sys, itertools
sys.argv = ['x', '/repo', '0']
exec(open('proto_g1.py').read().split("cnt = 0; bad = 0")[0])
for depth in (0, 1, 2):
    for n in range(1, 6):
        if depth == 2 and n > 4: continue
        if depth == 1 and n > 5: continue
        c = sum(1 for _ in skeletons(n, depth, None))
        print('depth', depth, 'n', n, c)
