import sys, random, itertools, collections
sys.path.insert(0, '/repo')
from emmet import css_matcher, html_matcher
from emmet.html_matcher import scan as hscan, attributes
from emmet.css_matcher import scan as cscan, split_value
from emmet.action_utils import get_css_section, select_item_css, get_open_tag, select_item_html

fails = collections.OrderedDict()
def rec(kind, src, pos, detail):
    key = kind
    if key not in fails or len(src) < len(fails[key][0]):
        fails[key] = (src, pos, detail)

def check_range(kind, src, pos, s, e):
    if s is None or e is None or not (0 <= s <= e <= len(src)):
        rec(kind, src, pos, (s, e))

def check_html(src):
    n = len(src)
    tags = []
    try:
        hscan(src, lambda name, t, s, e: tags.append((name, t, s, e)))
    except Exception as ex:
        rec('hscan-exc-' + type(ex).__name__, src, None, str(ex))
        return
    prev_end = 0
    for name, t, s, e in tags:
        check_range('hscan-range', src, None, s, e)
        if not (src[s:e].startswith('<') and src[s:e].endswith('>')):
            rec('hscan-delims', src, None, (name, t, s, e))
        pre = '</' if t == 2 else '<'
        if not src[s:e].startswith(pre + name):
            rec('hscan-name', src, None, (name, t, s, e))
        if s < prev_end:
            rec('hscan-overlap', src, None, (name, t, s, e, prev_end))
        prev_end = e
    for opt in (None, {'xml': True}):
        for pos in range(-1, n + 2):
            for fn in (html_matcher.match, html_matcher.balanced_outward, html_matcher.balanced_inward):
                try:
                    r = fn(src, pos, opt)
                except Exception as ex:
                    rec('h-' + fn.__name__ + '-exc-' + type(ex).__name__, src, pos, str(ex)); continue
                items = r if isinstance(r, list) else ([r] if r else [])
                for it in items:
                    check_range('h-' + fn.__name__ + '-open', src, pos, *it.open)
                    if it.close: check_range('h-' + fn.__name__ + '-close', src, pos, *it.close)
            try:
                m = html_matcher.match(src, pos, opt); o = html_matcher.balanced_outward(src, pos, opt)
                if (m is None) != (not o):
                    rec('h-match-vs-outward-none', src, pos, (m and (m.name, m.open, m.close), [x.to_json() for x in o]))
                elif m and (m.open != o[0].open or m.close != o[0].close):
                    rec('h-match-vs-outward', src, pos, ((m.name, m.open, m.close), [x.to_json() for x in o]))
            except Exception: pass

def check_css(src):
    n = len(src)
    toks = []
    try:
        cscan(src, lambda *a: toks.append(a))
    except Exception as ex:
        rec('cscan-exc-' + type(ex).__name__, src, None, str(ex)); return
    for t, s, e, d in toks:
        check_range('cscan-range-' + t, src, None, s, e)
        if not (-1 <= d <= n): rec('cscan-delim', src, None, (t, s, e, d))
    for pos in range(-1, n + 2):
        try:
            m = css_matcher.match(src, pos)
            if m:
                check_range('c-match-range', src, pos, m.start, m.end)
                check_range('c-match-body', src, pos, m.body_start, m.body_end)
        except Exception as ex:
            rec('c-match-exc-' + type(ex).__name__, src, pos, str(ex))
        for fn in (css_matcher.balanced_outward, css_matcher.balanced_inward):
            try:
                for r in fn(src, pos):
                    check_range('c-' + fn.__name__, src, pos, r[0], r[1])
            except Exception as ex:
                rec('c-' + fn.__name__ + '-exc-' + type(ex).__name__, src, pos, str(ex))
        for props in (False, True):
            try:
                sec = get_css_section(src, pos, props)
                if sec:
                    check_range('sec', src, pos, sec.start, sec.end)
                    check_range('sec-body', src, pos, sec.body_start, sec.body_end)
                    for p in sec.properties or []:
                        check_range('sec-prop-name', src, pos, *p.name)
                        check_range('sec-prop-value', src, pos, *p.value)
                        check_range('sec-prop-ba', src, pos, p.before, p.after)
                        for vt in p.value_tokens: check_range('sec-prop-vt', src, pos, *vt)
            except Exception as ex:
                rec('sec-exc-' + type(ex).__name__, src, pos, str(ex))
        for prev in (False, True):
            try:
                m = select_item_css(src, pos, prev)
                if m:
                    check_range('selcss-%s' % prev, src, pos, m.start, m.end)
                    for r in m.ranges: check_range('selcss-r-%s' % prev, src, pos, *r)
            except Exception as ex:
                rec('selcss-exc-' + type(ex).__name__, src, pos, str(ex))
    try:
        for r in split_value(src): check_range('split', src, None, *r)
    except Exception as ex:
        rec('split-exc-' + type(ex).__name__, src, None, str(ex))

halpha = ['<', '>', '/', 'a', 'b', ' ', '"', "'", '=', '!', '-', '?', '[', ']', '{', '}', '\\', 'br', 'script', 'style', 'C', 'D', 'A', 'T']
calpha = ['{', '}', ':', ';', 'a', ' ', '"', "'", '\\', '(', ')', '/', '*', '\n', '-', ',', '@', '$']
rnd = random.Random(1)
for L in range(0, 4):
    for tup in itertools.product(halpha, repeat=L):
        check_html(''.join(tup))
    for tup in itertools.product(calpha, repeat=L):
        check_css(''.join(tup))
for i in range(6000):
    check_html(''.join(rnd.choice(halpha) for _ in range(rnd.randint(4, 14))))
    check_css(''.join(rnd.choice(calpha) for _ in range(rnd.randint(4, 12))))
for k, v in fails.items():
    print(k, repr(v[0]), v[1], v[2])
