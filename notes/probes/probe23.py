import sys, random, re, collections
sys.path.insert(0, sys.argv[1])
from emmet import expand
from emmet.config import Config
rnd = random.Random(11)
BLOCK = ['div', 'p', 'ul', 'li', 'section', 'h1', 'x-y', 'table', 'tr', 'td', 'body', 'header']
INLINE = ['span', 'em', 'b', 'i', 'strong', 'code']
def elem(rnd):
    s = rnd.choice(BLOCK + INLINE) if rnd.random() < 0.85 else ''
    for _ in range(rnd.choice([0,0,1,2])):
        k = rnd.random()
        if k < 0.4: s += '.' + rnd.choice(['a', 'b-c', 'item$'])
        elif k < 0.55: s += '#' + rnd.choice(['id', 'main'])
        else: s += '[' + rnd.choice(['title=x', 'data-a="p q"', 'foo', "t='v'"]) + ']'
    if not s: s = '.' + rnd.choice(['a', 'b'])
    if rnd.random() < 0.3: s += '{' + rnd.choice(['text', 'Hello world', 'T $', 'line1\nline2', 'x']) + '}'
    if rnd.random() < 0.25: s += '*' + str(rnd.randint(1, 4))
    if rnd.random() < 0.05: s += '/'
    return s
def abbr(rnd, depth=0):
    parts = [elem(rnd)]
    for _ in range(rnd.choice([0,1,1,2,3,4])):
        op = rnd.choice(['>', '+', '^', '>', '+', '^^'])
        if rnd.random() < 0.2 and depth < 2:
            g = '(' + abbr(rnd, depth+1) + ')' + ('*%d' % rnd.randint(2,3) if rnd.random()<0.4 else '')
            if op.startswith('^'): op = '+'
            parts.append(op + g)
            if rnd.random() < 0.5: parts.append(rnd.choice(['+', '^']) + elem(rnd))
        else:
            parts.append(op + elem(rnd))
    return ''.join(parts)

import re
def html_tree(out):
    # parse unformatted xhtml-style html into nested (name, children); void via ' />'
    toks = re.findall(r'<(/?)([\w:\-]+)((?:\s+[\w:\-.]+(?:=(?:"[^"]*"|\'[^\']*\'))?)*)\s*(/?)>', out)
    root = ('#', []); stack = [root]
    for close, name, attrs, selfc in toks:
        if close: stack.pop()
        else:
            n = (name, [])
            stack[-1][1].append(n)
            if not selfc: stack.append(n)
    return root[1]
def indent_tree(out, ind, syn):
    root = ('#', []); stack = [(-1, root)]
    for line in out.split('\n'):
        d = 0
        while line.startswith(ind): line = line[len(ind):]; d += 1
        if syn in ('pug', 'slim') and line.startswith('| '): continue
        if syn == 'haml' and line.endswith(' |'): continue
        if syn == 'haml':
            m = re.match(r'%([\w:\-]+)', line); name = m.group(1) if m else 'div'
        else:
            m = re.match(r'([\w:\-]+)', line); name = m.group(1) if m and not line.startswith(('.', '#')) else 'div'
        if line.startswith(('.', '#')): name = 'div'
        n = (name, [])
        while stack[-1][0] >= d: stack.pop()
        stack[-1][1][1].append(n) if False else stack[-1][1][1].append(n)
        stack.append((d, n))
    return root[1]
fails = collections.OrderedDict(); n = 0
rnd = random.Random(4)
for i in range(5000):
    a = abbr(rnd)
    if '{' in a and re.search(r'(^|[>+^(])\{', a): continue
    a = a.replace('line1\nline2', 'line1 line2')
    # avoid nameless elements: implicit names fine
    for syn in ('haml', 'pug', 'slim'):
        ind = rnd.choice(['\t', '  '])
        try:
            o = expand(a, {'syntax': syn, 'options': {'output.indent': ind}})
            h = expand(a, {'syntax': 'html', 'options': {'output.format': False, 'output.selfClosingStyle': 'xhtml'}})
        except Exception as e:
            fails.setdefault('exc', (a, str(e))); continue
        n += 1
        t1 = indent_tree(o, ind, syn); t2 = html_tree(h)
        if t1 != t2:
            if syn not in fails or len(a) < len(fails[syn][0]): fails[syn] = (a, o, h)
print(n)
for k, v in fails.items(): print(k, v)
