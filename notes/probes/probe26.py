import sys
sys.path.insert(0, '/repo')
from emmet import expand
for a in [r"p{a\$b}", r"p{a\\b}", r"p{a\{b}", r"p{a\}b}", r"p{a\>b}", r"p{{x}}", r"p{a{b{c}}d}", r"p{ $ }*2", r"p{\$#}", r"p{a>b+c^d*3(e)[f]'g'\"h\"}", r"p{é☃}", r"p{a}{b}", r"p{}", r"p{ }", r"p{a\}", r"p[t='a\'b']", r"p[t=a\ b]", r"p{$@-}*2", r"p{a$}*2>b", r"p{x}>b{y}+i", r"p>{t}+b", r"{t}*2", r"(p{$})*2"]:
    try: print(f"{a:36} -> {expand(a, {'options': {'output.format': False}})!r}")
    except Exception as e: print(f"{a:36} !! {type(e).__name__} {getattr(e, 'message', e)}")
