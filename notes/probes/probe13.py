import sys, random, collections
sys.path.insert(0, '/repo')
from emmet import css_matcher
from emmet.action_utils import get_css_section, select_item_css
class N:
    def __init__(s, kind): s.kind=kind; s.children=[]; s.parent=None
def gen(rnd):
    out=[]; nodes=[]
    def pos(): return sum(len(x) for x in out)
    def ws(): out.append(rnd.choice(['', ' ', '\n', '\n  ', ' /* c; } { */ ']))
    def decl(parent):
        n = N('decl'); n.parent=parent
        name = rnd.choice(['color', 'margin', '$v', '--x', 'background', 'a-b'])
        n.start = pos(); out.append(name); n.name=(n.start,pos())
        out.append(rnd.choice(['', ' '])); out.append(':'); out.append(rnd.choice(['', ' ']))
        val = rnd.choice(['red', '10px 20px', 'url("a;b{}")', "'x:y'", 'calc(1px + (2px * 3))', 'a, b', '#fff', 'rgba(0, 0, 0, .5)', '1px solid red', 'a:b'])
        vs = pos(); out.append(val); n.value=(vs,pos())
        out.append(rnd.choice(['', '', ' '])); n.semi = pos(); out.append(';'); n.end = pos()
        nodes.append(n); parent.children.append(n)
    def rule(depth, parent):
        n = N('rule'); n.parent=parent
        sel = rnd.choice(['a', '.b', 'a:hover', 'a::before', '@media (min-width: 10px)', 'a[title="{;}"]', '&.x', '> li', 'a, b', 'ul li', '@include foo($a: 1)', 'a:not(.b)'])
        n.start = pos(); out.append(sel); n.sel=(n.start,pos())
        out.append(rnd.choice(['', ' '])); n.brace = pos(); out.append('{')
        for _ in range(rnd.choice([0,1,2,3])):
            ws()
            if depth < 3 and rnd.random() < 0.35: rule(depth+1, n)
            else: decl(n)
        ws(); n.close = pos(); out.append('}'); n.end = pos()
        nodes.append(n); parent.children.append(n)
    root = N('root')
    for _ in range(rnd.randint(1,3)):
        ws()
        if rnd.random() < 0.2: decl(root)
        else: rule(0, root)
    ws()
    return ''.join(out), nodes, root
fails = collections.OrderedDict()
def rec(k, *a):
    if k not in fails or len(a[0]) < len(fails[k][0]): fails[k] = a
rnd = random.Random(3)
cnt=0
for it in range(3000):
    src, nodes, root = gen(rnd)
    for pos in range(0, len(src)+1):
        cnt+=1
        enc = [n for n in nodes if n.start < pos < n.end]
        enc.sort(key=lambda n: n.end-n.start)
        m = css_matcher.match(src, pos)
        got = m and m.to_json()
        def js(n):
            if n.kind=='rule': return {'type':'selector','start':n.start,'end':n.end,'body_start':n.brace+1,'body_end':n.close}
            return {'type':'property','start':n.start,'end':n.end,'body_start':n.value[0],'body_end':n.value[1]}
        if enc and enc[0].kind=='decl' and pos >= enc[0].value[1]:
            ok = got == js(enc[0]) or got == (js(enc[1]) if len(enc)>1 else None)
        else:
            ok = got == (js(enc[0]) if enc else None)
        if not ok: rec('match', src, pos, got, js(enc[0]) if enc else None)
        # outward for rules only
        o = css_matcher.balanced_outward(src, pos)
        exp = []
        def push(r):
            if r[0]!=r[1] and (not exp or exp[-1]!=r): exp.append(r)
        alt = None
        for n in enc:
            if n.kind=='decl':
                if pos < n.semi:
                    push(n.value); push((n.start,n.end))
            else:
                a,b = n.brace+1, n.close
                while a<b and src[a] in ' \t\n\r\xa0': a+=1
                while b>a and src[b-1] in ' \t\n\r\xa0': b-=1
                push((a,b)); push((n.start,n.end))
        if [tuple(x) for x in o] != exp:
            k = 'outward-after-first' if enc and not o else 'outward'
            rec(k, src, pos, o, exp)
print(cnt)
for k, v in fails.items(): print(k, v)
