import sys
sys.path.insert(0, sys.argv[1])
from emmet.action_utils import get_css_section, select_item_css
for src in ["a { b: c; d: e }", "a { b: c; d: e f }", "a{b:c;x{y:z}d:e;}", "a { b: ; c }", "a { b: c;; d: e; }"]:
    sec = get_css_section(src, 2, True)
    print(repr(src), sec.to_json())
    for p in sec.properties:
        print('   name', repr(src[p.name[0]:p.name[1]]), 'value', repr(src[p.value[0]:p.value[1]]), 'before', repr(src[p.before:p.name[0]]), 'after', (p.value[1], p.after), [src[a:b] for a,b in p.value_tokens])
    for pos in (0, 3, 4, 8, 10, len(src)):
        n = select_item_css(src, pos); p = select_item_css(src, pos, True)
        print('   pos', pos, 'next', n and n.to_json(), 'prev', p and p.to_json())
