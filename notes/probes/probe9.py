import sys, itertools
sys.path.insert(0, '/repo')
import emmet
from emmet import expand
def run(abbr, cfg):
    calls = []
    def field(index, placeholder, offset=None, line=None, column=None):
        s = '${%d:%s}' % (index, placeholder) if placeholder else '${%d}' % index
        calls.append(('F', s, offset, line, column)); return s
    def text(txt, offset=None, line=None, column=None):
        s = txt
        calls.append(('T', s, offset, line, column)); return s
    cfg = dict(cfg); cfg['options'] = dict(cfg.get('options', {})); cfg['options']['output.field'] = field; cfg['options']['output.text'] = text
    out = expand(abbr, cfg)
    nl = cfg['options'].get('output.newline', '\n')
    bad = []
    for kind, s, off, line, col in calls:
        ok = out[off:off+len(s)] == s
        # line/col oracle
        before = out[:off]
        l = before.count(nl) if nl else 0
        c = len(before) - (before.rfind(nl) + len(nl)) if nl and nl in before else len(before)
        if not ok or l != line or c != col:
            bad.append((kind, s, off, line, col, 'exp', l, c, ok))
    return out, bad
cases = [("ul>li*2>a{x}", {}), ("div>p{a\nb}+em", {}), ("div>p", {'text': 'x\ny\r\nz'}), ("ul>li*", {'text': ['a', 'b']}),
 ("div#a>p.b", {'options': {'comment.enabled': True}}), ("p10+m", {'type': 'stylesheet'}), ("@kf", {'type':'stylesheet'}), ("div>p{a\nb}", {'syntax': 'pug'}), ("div>p{a\nb}", {'syntax': 'haml'}),("div>p[title='${1:a\nb}']+em", {})]
for nl, bi, ind in itertools.product(['\n', '\r\n', '\r'], ['', '  '], ['\t', '    ']):
    for a, cfg in cases:
        cfg = dict(cfg); cfg['options'] = dict(cfg.get('options', {}), **{'output.newline': nl, 'output.baseIndent': bi, 'output.indent': ind})
        try:
            out, bad = run(a, cfg)
            if bad: print(repr(a), repr(nl), repr(bi), '\n   ', repr(out), '\n   ', bad[:3])
        except Exception as e:
            print('EXC', a, cfg, type(e).__name__, e)
