import sys
sys.path.insert(0, '/repo')
from emmet import css_matcher, html_matcher
from emmet.action_utils import get_css_section, select_item_css, get_open_tag, select_item_html
def t(label, f):
    try:
        r = f()
        if hasattr(r, 'to_json'): r = r.to_json()
        elif isinstance(r, list): r = [x.to_json() if hasattr(x,'to_json') else x for x in r]
        print(f"{label!s:45} -> {r!r}")
    except Exception as e:
        print(f"{label!s:45} !! {type(e).__name__}: {e}")
css = "a { b: c; }\nd { e: f; g { h: i } }"
print(len(css))
for pos in (5, 8, 16, 18, 25, 30):
    t(f"css out {pos} {css[pos]!r}", lambda: css_matcher.balanced_outward(css, pos))
    t(f"css match {pos}", lambda: css_matcher.match(css, pos))
    t(f"css in {pos}", lambda: css_matcher.balanced_inward(css, pos))
# C16 claims
for src in ['a{b:"x\\', 'a{b:c', 'a{b', 'a{b:', 'b:c', '"\\']:
    toks = []
    css_matcher.scan(src, lambda *a: toks.append(a))
    print(repr(src), len(src), toks)
    for pos in range(-1, len(src)+2):
        for fn in (css_matcher.match, css_matcher.balanced_outward, css_matcher.balanced_inward):
            try:
                r = fn(src, pos)
                if hasattr(r, 'to_json'): r = r.to_json()
                if r: print('   ', fn.__name__, pos, r)
            except Exception as e:
                print('   ', fn.__name__, pos, '!!', type(e).__name__, e)
