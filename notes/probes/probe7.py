import sys
sys.path.insert(0, '/repo')
import emmet
from emmet import expand
def field(index, placeholder, **kw):
    return '${%d:%s}' % (index, placeholder) if placeholder else '${%d}' % index
def t(label, f):
    try:
        r = f()
        print(f"--- {label!s}\n{r}")
    except Exception as e:
        print(f"--- {label!s} !! {type(e).__name__}: {getattr(e,'message',None) or e} pos={getattr(e,'pos',None)}")
O = {'output.field': field}
for a in ["div>p>em", "div>p+em>b", "ul>li*2>a", "div>em+b+i+u", "div>{text}+p", "div>{a}+{b}", "p{foo}>em", "div>p{a\nb}", "html>body>div", "div>span>div", "div>a>{x}+b", "section>(header>h1)+(p>em*3)+footer", "div>br+hr", "div>img", "input+label>input", "div>lorem2"]:
    t(a, lambda: expand(a, {'options': O}))
t("baseIndent", lambda: expand("div>p>em+b*3", {'options': dict(O, **{'output.baseIndent': '>>', 'output.indent': '..', 'output.newline': '\r\n'})}))
t("formatLeaf", lambda: expand("div>p", {'options': dict(O, **{'output.formatLeafNode': True})}))
t("inlineBreak0", lambda: expand("div>em+b+i+u", {'options': dict(O, **{'output.inlineBreak': 0})}))
t("comments", lambda: expand("div#a>p.b>em", {'options': dict(O, **{'comment.enabled': True})}))
t("comments nofmt", lambda: expand("div#a>p.b>em", {'options': dict(O, **{'comment.enabled': True, 'output.format': False})}))
t("comments before", lambda: expand("div#a>p.b>em", {'options': dict(O, **{'comment.enabled': True, 'comment.before': '<!-- [#ID] -->\n'})}))
for syn in ('haml', 'pug', 'slim'):
    for a in ["div#a.b.c>p[title=x foo]>em{txt}", "ul>li*2>a{x}", "div>{text}", "div>p{a\nb}>em", ".a>.b+img", "div>(p+em)*2^b", "input[disabled.]", "a{x}>b"]:
        t(syn + " " + a, lambda: expand(a, {'syntax': syn, 'options': O}))
