import sys
sys.path.insert(0, '/repo')
import emmet
from emmet import expand
def t(label, f):
    try:
        r = f()
        print(f"{label!s:45} -> {r!r}")
    except Exception as e:
        print(f"{label!s:45} !! {type(e).__name__}: {getattr(e,'message',None) or e} pos={getattr(e,'pos',None)}")
cfg = {'text': 'hello', 'snippets': {'bad': 'a[b="]'}}
t("ok before", lambda: expand('p', cfg))
t("bad", lambda: expand('bad', cfg))
print(cfg)
t("after", lambda: expand('p', cfg))
expand('p'); print('default arg', emmet.expand.__defaults__)
