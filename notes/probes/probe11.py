import sys, itertools, collections
sys.path.insert(0, '/repo')
from emmet.math_expression import evaluate, extract, MathExpressionException
fails = collections.OrderedDict()
alpha = list("12.+-*/\\() a")
cnt = collections.Counter()
for L in range(0, 6):
    for tup in itertools.product(alpha, repeat=L):
        s = ''.join(tup)
        try:
            evaluate(s); cnt['ok'] += 1
        except MathExpressionException: cnt['parse'] += 1
        except ZeroDivisionError: cnt['zero'] += 1
        except Exception as e:
            k = type(e).__name__ + ':' + str(e)[:30]
            cnt[k] += 1
            if k not in fails or len(s) < len(fails[k]): fails[k] = s
print(cnt)
for k, v in fails.items(): print(k, repr(v))
# extract
bad = collections.OrderedDict()
for L in range(0, 6):
    for tup in itertools.product(list("1.+( )a"), repeat=L):
        s = ''.join(tup)
        for pos in range(0, len(s) + 1):
            for opt in (None, {'lookAhead': False}, {'whitespace': False}):
                try:
                    r = extract(s, pos, opt)
                except Exception as e:
                    bad.setdefault('exc-' + type(e).__name__, (s, pos, opt)); continue
                if r is None: continue
                a, b = r
                if not (0 <= a <= b <= len(s)): bad.setdefault('range', (s, pos, opt, r)); continue
                sub = s[a:b]
                if any(ch not in "0123456789.+-*/\\() \t\n\r\xa0" for ch in sub): bad.setdefault('chars', (s, pos, opt, r))
                d = 0; okb = True
                for ch in sub:
                    if ch == '(': d += 1
                    elif ch == ')':
                        d -= 1
                        if d < 0: okb = False
                if d != 0 or not okb: bad.setdefault('balance', (s, pos, opt, r))
for k, v in bad.items(): print(k, v)
print(evaluate('1)'), evaluate('2*7\\2'), evaluate('7\\2*2'), evaluate('2*6/4'), evaluate('1 - -2'))
