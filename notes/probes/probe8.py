import sys
sys.path.insert(0, '/repo')
import emmet
from emmet import expand
def t(a, **kw):
    try:
        kw.setdefault('options', {}); kw['options'].setdefault('output.format', False)
        r = expand(a, kw)
        print(f"{a!s:50} {({k:v for k,v in kw.items()})} -> {r!r}")
    except Exception as e:
        print(f"{a!s:50} !! {type(e).__name__}: {getattr(e,'message',None) or e} pos={getattr(e,'pos',None)}")
for a in ["p#a.b.c", "p.a#b.c", "p.a[class=b].c", "p[title=a title=b]", "p[a=1 b=2 a=3]", "p#a#b", "p[id=x]#y", "p.a.b[class]", "p[a]", "p[a.]", "p[a. b.]", "p[!a]", "p[!a=1]", "p[!a='']", "p[a='x y' b=\"q\"]", "p[a={x}]", "p['x']", "p[a=]", "p[disabled]", "p[DISABLED]", "p..a", "p[a=b=c]", "p[a='it''s']", "p[a=x.y#z]", "p[a b c]", "p[a=1].b[c=2]#d", "p[class=a class=b]", "p[a='']", "p[a=''  b]", "p[a='x' a]","p[a a='x']", "p[!a a=1]", "p[a. a=1]"]:
    t(a)
t("p[a=1 b=2 a=3]", options={'output.reverseAttributes': True})
t("p.a[b=1].c", options={'output.reverseAttributes': True})
t("p[a.]", options={'output.compactBoolean': True})
t("p[a.]", options={'output.compactBoolean': True, 'output.selfClosingStyle': 'xml'})
t("p[a='x' B=y]", options={'output.attributeQuotes': 'single', 'output.attributeCase': 'upper'})
t("p.a[for=x]", syntax='jsx')
t("p..a", syntax='jsx')
t("p.{a}", syntax='jsx')
t("p..a", syntax='vue')
t("p[a={x} b='{y}']", syntax='jsx')
t("P.a", syntax='jsx')
t("Foo.Bar.baz", syntax='jsx')
t("p[a=1]", syntax='xml')
t("p[a]", syntax='xml')
t("br/", syntax='xml')
t("br/", syntax='html')
t("br/", syntax='html', options={'output.selfClosingStyle': 'xhtml'})
t("p/", syntax='html', options={'output.selfClosingStyle': 'xhtml'})
t("p[a]/", syntax='html', options={'output.selfClosingStyle': 'xml', 'output.compactBoolean': True})
