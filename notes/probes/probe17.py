import sys, random, re, collections
sys.path.insert(0, sys.argv[1])
from emmet import expand
from emmet.config import Config
rnd = random.Random(11)
BLOCK = ['div', 'p', 'ul', 'li', 'section', 'h1', 'x-y', 'table', 'tr', 'td', 'body', 'header']
INLINE = ['span', 'em', 'b', 'i', 'strong', 'code']
def elem(rnd):
    s = rnd.choice(BLOCK + INLINE) if rnd.random() < 0.85 else ''
    for _ in range(rnd.choice([0,0,1,2])):
        k = rnd.random()
        if k < 0.4: s += '.' + rnd.choice(['a', 'b-c', 'item$'])
        elif k < 0.55: s += '#' + rnd.choice(['id', 'main'])
        else: s += '[' + rnd.choice(['title=x', 'data-a="p q"', 'foo', "t='v'"]) + ']'
    if not s: s = '.' + rnd.choice(['a', 'b'])
    if rnd.random() < 0.3: s += '{' + rnd.choice(['text', 'Hello world', 'T $', 'line1\nline2', 'x']) + '}'
    if rnd.random() < 0.25: s += '*' + str(rnd.randint(1, 4))
    if rnd.random() < 0.05: s += '/'
    return s
def abbr(rnd, depth=0):
    parts = [elem(rnd)]
    for _ in range(rnd.choice([0,1,1,2,3,4])):
        op = rnd.choice(['>', '+', '^', '>', '+', '^^'])
        if rnd.random() < 0.2 and depth < 2:
            g = '(' + abbr(rnd, depth+1) + ')' + ('*%d' % rnd.randint(2,3) if rnd.random()<0.4 else '')
            if op.startswith('^'): op = '+'
            parts.append(op + g)
            if rnd.random() < 0.5: parts.append(rnd.choice(['+', '^']) + elem(rnd))
        else:
            parts.append(op + elem(rnd))
    return ''.join(parts)
TAG = re.compile(r'<(/?)([\w:\-]+)((?:\s+[\w:\-.]+(?:=(?:"[^"]*"|\'[^\']*\'|\{[^}]*\}))?)*)\s*(/?)>|<!--.*?-->', re.S)
def lex(out):
    toks = []; pos = 0
    for m in TAG.finditer(out):
        if m.start() > pos: toks.append(('text', out[pos:m.start()], pos))
        if m.group(0).startswith('<!--'): toks.append(('comment', m.group(0), m.start()))
        else: toks.append(('close' if m.group(1) else ('self' if m.group(4) else 'open'), m.group(2), m.start(), m.group(3)))
        pos = m.end()
    if pos < len(out): toks.append(('text', out[pos:], pos))
    return toks
def norm(toks, drop_comments=False):
    res = []
    for t in toks:
        if t[0] == 'text':
            s = re.sub(r'[ \t]*[\r\n]+[ \t]*', '\n', t[1]).strip()
            if s: res.append(('text', s))
        elif t[0] == 'comment':
            if not drop_comments: res.append(('comment', t[1]))
        else: res.append((t[0], t[1], re.sub(r'\s+', ' ', t[3]).strip()))
    # merge adjacent text
    return res
VOIDS = set()
fails = collections.OrderedDict(); n=0
for i in range(6000):
    a = abbr(rnd)
    base = {'options': {'output.format': False, 'output.formatSkip': []}}
    opts = {'output.format': True, 'output.formatSkip': [], 'output.indent': rnd.choice(['\t', '  ', '    ']), 'output.baseIndent': rnd.choice(['', '  ', '\t']), 'output.newline': rnd.choice(['\n', '\r\n']),
            'output.inlineBreak': rnd.choice([0, 1, 2, 3, 5]), 'output.formatLeafNode': rnd.random() < 0.3, 'output.formatForce': rnd.choice([['body'], [], ['p', 'em']]),
            'comment.enabled': rnd.random() < 0.3}
    syn = rnd.choice(['html', 'xml', 'jsx', 'vue', 'svelte', 'xsl'])
    try:
        o1 = expand(a, {'syntax': syn, 'options': dict(base['options'])})
        o2 = expand(a, {'syntax': syn, 'options': dict(opts)})
    except Exception as e:
        fails.setdefault('exc-' + type(e).__name__, (a, str(e))); continue
    n += 1
    t1 = norm(lex(o1), True); t2 = norm(lex(o2), True)
    if t1 != t2:
        if 'cosmetic' not in fails or len(a) < len(fails['cosmetic'][0]): fails['cosmetic'] = (a, syn, o1, o2, opts)
    # indentation law
    nl = opts['output.newline']; bi = opts['output.baseIndent']; ind = opts['output.indent']
    lines = o2.split(nl)
    off = 0; depth = 0
    toks = lex(o2)
    # compute open count at each offset
    events = []
    for t in toks:
        if t[0] == 'open': events.append((t[2], +1))
        elif t[0] == 'close': events.append((t[2], -1))
    for li, line in enumerate(lines):
        start = off; off += len(line) + len(nl)
        if li == 0: continue
        openc = sum(d for p, d in events if p < start)
        body = line[len(bi):] if line.startswith(bi) else None
        if body is None:
            fails.setdefault('nobase', (a, o2, opts)); break
        stripped = body.lstrip('\t ') if True else body
        lvl = openc - 1 if stripped.startswith('</') else openc
        exp = ind * lvl
        if not body.startswith(exp) or (body[len(exp):len(exp)+1] in (' ', '\t')):
            k = 'indent-comment' if stripped.startswith('<!--') else 'indent'
            if k not in fails or len(a) < len(fails[k][0]): fails[k] = (a, syn, o2, li, lvl, opts)
            break
print(n)
for k, v in fails.items(): print(k, v, '\n')
