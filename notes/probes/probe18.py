import sys, collections
sys.path.insert(0, sys.argv[1])
from emmet import expand
from emmet.config import Config
def field(index, placeholder, **kw):
    return '${%d:%s}' % (index, placeholder) if placeholder else '${%d}' % index
bad = []
for syn in ('html', 'xsl', 'pug', 'jsx', 'haml'):
    cfg = Config({'syntax': syn})
    for k, v in cfg.snippets.items():
        for deco_a, deco_d in (('', ''),):
            try:
                a = expand(k, {'syntax': syn, 'options': {'output.field': field}})
                d = expand(v, {'syntax': syn, 'options': {'output.field': field}})
            except Exception as e:
                bad.append((syn, k, v, 'EXC', type(e).__name__, str(e))); continue
            if a != d: bad.append((syn, k, v, a, d))
print(len(bad))
for b in bad[:20]: print(b)
# decorations
print(repr(expand('bq.x{t}*2>p', {'options': {'output.format': False}})))
print(repr(expand('blockquote.x{t}*2>p', {'options': {'output.format': False}})))
print(repr(expand('ri:a.x>p', {'options': {'output.format': False}})))
print(repr(expand('link:css.x', {'options': {'output.format': False}})))
print(repr(expand("link[href='${1:style}.css'].x", {'options': {'output.format': False}})))
print(repr(expand('s1', {'snippets': {'s1': 's2>s1', 's2': 's1+s2.x'}, 'options': {'output.format': False}})))
print(repr(expand('s1', {'snippets': {'s1': 's1*2>s1'}, 'options': {'output.format': False}})))
