import sys
sys.path.insert(0, sys.argv[1])
from emmet import expand
for a in ["m10-20", "m10px20", "m10px-20", "m-10--20", "m1.5-2", "m10p20e5x", "lh1.5", "z-1", "m.5", "m1.", "op.5", "m0-0.0", "m10-20-30-40", "m10--20", "m-.5", "m1e", "m1r-2p", "c#f-1", "bd1-#f", "bd1#f", "c#ff.25", "c#fc0", "c#abcdef", "c#aabbcc", "c#a1b2c3.5", "c#t", "c#f.", "c#0.0", "c#1234", "m10!", "m10-20!", "m10+p20", "m10-a", "m10a", "fw700", "fx1-1-0", "m10-20+c#f!", "w100p", "h10x", "m10%", "m10em-5", "t-5px", "m 10", "m:10", "m:10:20", "m-10-20", "p1-2-3", "m1.25e-2.5r"]:
    for cfg in ({'type': 'stylesheet'},):
        try: print(f"{a:16} -> {expand(a, cfg)!r}")
        except Exception as e: print(f"{a:16} !! {type(e).__name__} {e}")
print(expand("m10-20", {'syntax':'sass', 'type':'stylesheet'}), '|', expand("m10-20", {'syntax':'stylus', 'type':'stylesheet'}), '|', expand("m10+p1", {'syntax':'scss', 'type':'stylesheet', 'options': {'output.format': False}}))
print(expand("c#fc0", {'type':'stylesheet', 'options': {'stylesheet.shortHex': False}}), expand("c#f", {'type':'stylesheet', 'options': {'stylesheet.shortHex': False}}))
