import sys, random, collections
sys.path.insert(0, '/repo')
from emmet import html_matcher
from emmet.action_utils import get_open_tag, select_item_html
VOID = ['br', 'img', 'input', 'hr']
NAMES = ['div', 'p', 'a', 'ul', 'li', 'x-y', 'ns:t', 'span']
class El:
    def __init__(s): s.name=None; s.kind=None; s.open=None; s.close=None; s.children=[]; s.attrs=[]; s.parent=None
def gen(rnd, xml):
    out = []
    els = []
    def pos(): return sum(len(x) for x in out)
    def attrs(el):
        n = rnd.choice([0,0,1,2,3])
        for i in range(n):
            out.append(rnd.choice([' ', '  ', '\n']))
            name = rnd.choice(['id', 'class', 'title', 'class', 'data-x', 'href', 'disabled', ':bind', '*ngIf'])+ (str(i) if rnd.random()<0.3 else '')
            ns = pos(); out.append(name); ne = pos()
            kind = rnd.choice(['none', 'dq', 'sq', 'unq', 'expr'])
            if kind == 'none':
                el.attrs.append((name, ns, ne, None, None, None)); continue
            out.append('=')
            if kind == 'dq': v = '"' + rnd.choice(['', 'a b', 'x>y', "it's", 'a  b c', '</p>', '<b>']) + '"'
            elif kind == 'sq': v = "'" + rnd.choice(['', 'a b', 'x>y', 'say "hi"', '<i>']) + "'"
            elif kind == 'unq': v = rnd.choice(['a', 'foo', '12', 'a.b', '#x'])
            else: v = '{' + rnd.choice(['a', 'a>b', '{x}', '"}"', 'f(1)']) + '}'
            vs = pos(); out.append(v); ve = pos()
            el.attrs.append((name, ns, ne, v, vs, ve))
    def node(depth, parent):
        r = rnd.random()
        if r < 0.15: out.append(rnd.choice(['text', ' ', '\n', 'a > b', 'x'])); return
        if r < 0.22: out.append('<!--' + rnd.choice([' c ', '<div>', '</p>', '<br>', '-- >']) + '-->'); return
        if r < 0.27: out.append('<![CDATA[' + rnd.choice(['<div>', ']]', '</a>']) + ']]>'); return
        if r < 0.30: out.append('<?' + rnd.choice(['xml v="1"', 'php echo "<p>" ']) + '?>'); return
        el = El(); el.parent = parent
        if r < 0.36 and not xml:
            el.name = rnd.choice(['script', 'style']); el.kind = 'special'
            s = pos(); out.append('<' + el.name); attrs(el) if False else None; out.append('>'); el.open = (s, pos())
            out.append(rnd.choice(['', 'var a = "<div>";', 'if (a</b>) {}', '<p>', 'x<y']))
            s = pos(); out.append('</' + el.name + '>'); el.close = (s, pos())
            els.append(el); parent.children.append(el); return
        if r < 0.5:
            el.name = rnd.choice(VOID); el.kind = 'void'
            s = pos(); out.append('<' + el.name); attrs(el); out.append(rnd.choice(['', ' ']) + '>'); el.open = (s, pos())
            if xml:
                # in xml mode void needs close
                s = pos(); out.append('</' + el.name + '>'); el.close = (s, pos()); el.kind='pair'
            els.append(el); parent.children.append(el); return
        if r < 0.62:
            el.name = rnd.choice(NAMES); el.kind = 'self'
            s = pos(); out.append('<' + el.name); attrs(el); out.append(rnd.choice(['/', ' /']) + '>'); el.open = (s, pos())
            els.append(el); parent.children.append(el); return
        el.name = rnd.choice(NAMES); el.kind = 'pair'
        s = pos(); out.append('<' + el.name); attrs(el); out.append(rnd.choice(['', ' ', '\n']) + '>'); el.open = (s, pos())
        els.append(el); parent.children.append(el)
        if depth < 4:
            for _ in range(rnd.choice([0,1,1,2,3])): node(depth+1, el)
        s = pos(); out.append('</' + el.name + '>'); el.close = (s, pos())
    root = El()
    for _ in range(rnd.randint(1,3)): node(0, root)
    return ''.join(out), els, root
def rng(el): return (el.open[0], el.close[1] if el.close else el.open[1])

fails = collections.OrderedDict()
def rec(k, *a):
    if k not in fails or len(a[0]) < len(fails[k][0]): fails[k] = a
rnd = random.Random(21)
N=0
def model(src, e):
    s, en = e.open
    ranges = [(s+1, s+1+len(e.name))]
    def push(r):
        if r[0] != r[1] and ranges[-1] != r: ranges.append(r)
    for (name, ns, ne, v, vs, ve) in e.attrs:
        if v is None: push((ns, ne)); continue
        push((ns, ve))
        if v[0] in '"\'' : a, b = vs+1, ve-1
        elif v[0] == '{' and v[-1] == '}': a, b = vs+1, ve-1
        else: a, b = vs, ve
        if a != b:
            push((a, b))
            if name == 'class':
                import re
                for m in re.finditer(r'[^ \t\n\r\xa0]+', src[a:b]): push((a+m.start(), a+m.end()))
    return {'start': s, 'end': en, 'ranges': ranges}
for it in range(1500):
    src, els, root = gen(rnd, False)
    tags = sorted([e for e in els], key=lambda e: e.open[0])
    for pos in range(0, len(src)+1):
        N += 1
        nxt = [e for e in tags if e.open[1] > pos]
        want = model(src, nxt[0]) if nxt else None
        got = select_item_html(src, pos)
        got = got.to_json() if got else None
        if got != want: rec('next', src, pos, got, want)
        prv = [e for e in tags if e.open[0] < pos]
        want = model(src, prv[-1]) if prv else None
        got = select_item_html(src, pos, True)
        got = got.to_json() if got else None
        if got != want: rec('prev', src, pos, got, want)
        # get_open_tag: open/self tag or close tag strictly containing pos
        t = get_open_tag(src, pos)
        cand = [e for e in els if e.open[0] < pos < e.open[1]]
        candc = [e for e in els if e.close and e.close[0] < pos < e.close[1]]
        if cand:
            e = cand[0]
            w = (e.name, e.open[0], e.open[1], [(a[0], a[1], a[2], a[3], a[4], a[5]) for a in e.attrs])
            g = t and (t.name, t.start, t.end, [(a.name, a.name_start, a.name_end, a.value, a.value_start, a.value_end) for a in (t.attributes or [])])
            if g != w: rec('open', src, pos, g, w)
        elif candc:
            e = candc[0]
            if not t or (t.name, t.start, t.end) != (e.name, e.close[0], e.close[1]) or t.attributes: rec('open-close', src, pos, t and t.to_json())
        else:
            if t is not None: rec('open-none', src, pos, t.to_json())
print(N)
for k, v in fails.items(): print(k, v)
