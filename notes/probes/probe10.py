import sys, itertools, random, collections
sys.path.insert(0, '/repo')
from emmet.abbreviation import tokenize as mtok
from emmet.css_abbreviation import tokenize as ctok
from emmet.scanner import ScannerException
fails = collections.OrderedDict()
def check(kind, fn, s, *a):
    try:
        toks = fn(s, *a)
    except ScannerException as e:
        if e.pos is None or not (0 <= e.pos <= len(s)):
            fails.setdefault(kind + '-errpos', (s, e.pos))
        return
    except Exception as e:
        fails.setdefault(kind + '-exc-' + type(e).__name__, (s, str(e))); return
    pos = 0
    for t in toks:
        if t.start is None or t.end is None:
            fails.setdefault(kind + '-none-' + t.type, (s, t.start, t.end)); return
        if t.start != pos:
            fails.setdefault(kind + '-gap-' + t.type, (s, t.start, pos, [(x.type, x.start, x.end) for x in toks])); return
        if t.end <= t.start:
            fails.setdefault(kind + '-empty-' + t.type, (s, t.start, t.end)); return
        pos = t.end
    if pos != len(s):
        fails.setdefault(kind + '-tail', (s, pos, [(x.type, x.start, x.end) for x in toks]))
malpha = list("ab1$#@-.*>+^()[]{}'\"= \\/:!") 
calpha = list("ab1$#@-.,+()'\"% !:/tf") + ['{', '}']
for L in range(0, 5):
    for tup in itertools.product(malpha, repeat=L): check('m', mtok, ''.join(tup))
for L in range(0, 5):
    for tup in itertools.product(calpha, repeat=L):
        check('c', ctok, ''.join(tup)); check('cv', ctok, ''.join(tup), True)
for k, v in fails.items(): print(k, v)
