import sys
sys.path.insert(0, '/repo')
import emmet
from emmet import expand
def t(label, f=None, **kw):
    if f is None:
        a = label; f = lambda: expand(a, kw) if kw else expand(a)
    try:
        r = f()
        print(f"{label!s:40} -> {r!r}")
    except Exception as e:
        print(f"{label!s:40} !! {type(e).__name__}: {getattr(e,'message',None) or e} pos={getattr(e,'pos',None)}")
for a in ["div>p^^^ul", "(div>p^^^em)+ul", "div>(p>em^^^b)+i", "div>(p>em)^i", "(div+p)>em", "(div+p)*2>em", "div>(p+em)*2^b", "ul>.a", "ul>(.a+.b)*2", "table>.r>.c", "p>.x", "em>.x", "select>[v=1]", "div*2>ul>.x$", "div(p)", "(a)(b)", "div>p+", "div>", "div^", "^div", "div>>p", "div++p", "()", "(div)*2>p", "ul>li*0", "ul>li*1", "a+b*2>c^^d"]:
    t(a, options={'output.format': False})
for a in ["li.item$*3", "li.item$$$*3", "li.item$@5*3", "li.item$@-*3", "li.item$@-5*3", "ul*2>li.i$*2", "(li.i$)*3", "ul*2>(li.i$+li.j$)", "ul*2>li.i$@^*2", "li{$}*2", "li[a=$]*2", "li$*12", "li$$@-10*3", "li.i$", "li.i$@3", "li.i$@-3"]:
    t(a, options={'output.format': False})
for m in (0,1,2,3,4,5,7):
    t("ul*3>li*3 max=%d" % m, lambda: expand("ul*3>li.i$*3", {'maxRepeat': m, 'options': {'output.format': False}}))
t("(a>b*2)*2+c*2 max 3", lambda: expand("(em>b*2)*2+i*2", {'maxRepeat': 3, 'options': {'output.format': False}}))
