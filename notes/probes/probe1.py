import sys, traceback
sys.path.insert(0, '/repo')
import emmet
from emmet import expand
def t(label, f):
    try:
        r = f()
        print(f"{label!s:45} -> {r!r}")
    except Exception as e:
        print(f"{label!s:45} !! {type(e).__name__}: {getattr(e,'message',None) or e} pos={getattr(e,'pos',None)}")

# C04 claims
t("a{*foo}", lambda: expand("a{*foo}"))
t("a{*}", lambda: expand("a{*}"))
t("a[title=(x)]", lambda: expand("a[title=(x)]"))
t("a[title='f)']", lambda: expand("a[title='f)']"))
t("a{(x)}", lambda: expand("a{(x)}"))
t("a{$#}", lambda: expand("a{$#}"))
t("$#", lambda: expand("$#"))
# C07 claims
for s in ["$#", "{*", "[.", "[${1}", "lorem-", "", "a[${1}=x]"]:
    t(repr(s), lambda s=s: expand(s))
t("jsx backslash", lambda: expand("\\", {'syntax':'jsx'}))
t("empty + text", lambda: expand("", {'text': 'foo'}))
t("empty + text list", lambda: expand("", {'text': ['foo']}))
# C06
t("animic", lambda: expand("animic", {'type':'stylesheet'}))
# C05
t("c#e7bc0b", lambda: expand("c#e7bc0b", {'type':'stylesheet'}))
t("c#010203", lambda: expand("c#010203", {'type':'stylesheet'}))
# C12 
t("xsl vare comments", lambda: expand("vare>p", {'syntax':'xsl', 'options': {'comment.enabled': True}}))
t("xsl vare", lambda: expand("vare>p", {'syntax':'xsl'}))
t("xsl vare bem", lambda: expand("vare>p", {'syntax':'xsl', 'options': {'bem.enabled': True}}))
t("xsl vare noch", lambda: expand("vare", {'syntax':'xsl'}))
