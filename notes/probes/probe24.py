import sys, re, collections
sys.path.insert(0, sys.argv[1])
from emmet import expand
from emmet.config import Config
def reduce_fields(s):
    # ${n:xxx} -> xxx ; ${n} -> ''
    prev = None
    while prev != s:
        prev = s
        s = re.sub(r'\$\{(\d+)(?::([^{}]*))?\}', lambda m: m.group(2) or '', s)
    return s
def norm(s):
    s = re.sub(r'\s+', ' ', s).strip()
    s = re.sub(r'\s*,\s*', ', ', s)
    s = re.sub(r'\(\s+', '(', s); s = re.sub(r'\s+\)', ')', s)
    return s
re_prop = re.compile(r'^([a-z-]+)(?:\s*:\s*([^\n\r;]+?);*)?$')
bad = []; n = 0; kwn = 0; kwbad = []
for syn in ('css', 'stylus', 'sass'):
    cfg = Config({'type': 'stylesheet', 'syntax': syn})
    between = cfg.options['stylesheet.between']; after = cfg.options['stylesheet.after']
    for key, body in cfg.snippets.items():
        n += 1
        try: got = expand(key, {'type': 'stylesheet', 'syntax': syn})
        except Exception as e: bad.append((syn, key, body, 'EXC', str(e))); continue
        m = re_prop.match(body)
        if m:
            first = m.group(2).split('|')[0] if m.group(2) else ''
            exp = m.group(1) + between + reduce_fields(first) + after
            if norm(got) != norm(exp): bad.append((syn, key, body, got, exp))
            # keywords
            if syn == 'css' and m.group(2):
                for alt in m.group(2).split('|'):
                    for kw in re.findall(r'(?<![\w$\-(:#.\'"{])([A-Za-z]+)(?![\w\-])(\(?)', alt):
                        word, paren = kw
                        for typed in (word, word.upper(), word.capitalize()):
                            for sep in (':', '-'):
                                kwn += 1
                                try: g = expand(key + sep + typed, {'type': 'stylesheet'})
                                except Exception as e: kwbad.append((key, typed, 'EXC', str(e))); continue
                                val = g[len(m.group(1)) + 2:].rstrip(';')
                                ok = val == word or val.startswith(word + '(')
                                if not ok: kwbad.append((key, sep, typed, g, alt))
        else:
            exp = reduce_fields(body)
            if got != exp: bad.append((syn, key, body, got, exp))
print(n, len(bad), kwn, len(kwbad))
for b in bad[:15]: print(b)
seen = set()
for b in kwbad:
    if b[0] in seen: continue
    seen.add(b[0]); print(b)
    if len(seen) > 25: break
