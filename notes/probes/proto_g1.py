import sys, itertools, random, collections
sys.path.insert(0, sys.argv[1])
from emmet import expand
# script: list of ('el', name, repeat) | ('grp', script, repeat) interleaved with ops in a flat list: [item, op, item, op, item]
class El:
    def __init__(s, name, rep=None): s.name=name; s.rep=rep; s.children=[]
class Grp:
    def __init__(s, items, rep=None): s.children=[]; s.rep=rep
def interp(script):
    "script = [item, op, item, ...]; item = ('el', name, rep) | ('grp', subscript, rep). returns list of top nodes"
    root = []
    ctx = root; stack = []
    i = 0
    while i < len(script):
        it = script[i]
        if it[0] == 'el':
            node = El(it[1], it[2])
        else:
            node = Grp(None, it[2]); node.children = interp(it[1])
        ctx.append(node)
        if i + 1 < len(script):
            op = script[i+1]
            if op == '>':
                stack.append(ctx); ctx = node.children
            elif op == '+': pass
            else:
                for _ in op:
                    if stack: ctx = stack.pop()
        i += 2
    return root
def ser(script):
    out = []
    for k, it in enumerate(script):
        if k % 2: out.append(it); continue
        if it[0] == 'el': out.append(it[1] + ('*%d' % it[2] if it[2] else ''))
        else: out.append('(' + ser(it[1]) + ')' + ('*%d' % it[2] if it[2] else ''))
    return ''.join(out)
def render(nodes):
    out = []
    for n in nodes:
        for _ in range(n.rep or 1):
            if isinstance(n, El): out.append('<%s>%s</%s>' % (n.name, render(n.children), n.name))
            else: out.append(render(n.children))
    return ''.join(out)
# enumerate skeletons
OPS = ['>', '+', '^', '^^']
def skeletons(n, depth, counter):
    "yield scripts with exactly n elements"
    # a script is a sequence of items; items are els or groups
    def items_seq(n, depth):
        # yields list of items consuming n elements
        if n == 0: yield []; return
        # first item: element
        for rep in (None, 2):
            for rest in items_seq(n-1, depth): yield [('el', None, rep)] + rest
        if depth > 0:
            for k in range(1, n+1):
                for sub in scripts(k, depth-1):
                    for rep in (None, 2):
                        for rest in items_seq(n-k, depth): yield [('grp', sub, rep)] + rest
    def scripts(n, depth):
        for items in items_seq(n, depth):
            if not items: continue
            # choose ops between items
            choices = []
            for a in items[:-1]:
                choices.append(['+', '^', '^^'] if a[0] == 'grp' else OPS)
            for ops in itertools.product(*choices):
                sc = []
                for k, it in enumerate(items):
                    sc.append(it)
                    if k < len(ops): sc.append(ops[k])
                yield sc
    yield from scripts(n, depth)
def name_it(script, ctr):
    res = []
    for k, it in enumerate(script):
        if k % 2: res.append(it); continue
        if it[0] == 'el':
            ctr[0] += 1; res.append(('el', 'x%d' % ctr[0], it[2]))
        else: res.append(('grp', name_it(it[1], ctr), it[2]))
    return res
cnt = 0; bad = 0; first = None
for n in range(1, int(sys.argv[2]) + 1):
    for sk in skeletons(n, 2, None):
        sc = name_it(sk, [0])
        text = ser(sc)
        exp = render(interp(sc))
        try:
            got = expand(text, {'options': {'output.format': False}})
        except Exception as e:
            got = 'EXC %s %s' % (type(e).__name__, e)
        cnt += 1
        if got != exp:
            bad += 1
            if first is None or len(text) < len(first[0]): first = (text, exp, got)
print(cnt, bad, first)
