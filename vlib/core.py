"""
Runner core for the py-emmet property checks.

A property module (props/cNN.py) exposes

    PROP_ID   = 'C18'
    RULE      = 'how cases are generated; what makes one non-trivial'
    ASSUME    = ['assumption', ...]
    CHECKS    = {kind: fn(case, rec)}       # pure: re-executable from the JSON case alone
    def run(ctx): ...                       # drives generators through ctx.* drivers

A *case* is JSON-serialisable data. A check function inspects the real code on that case and calls
`rec.fail(bucket, detail)` for every discrepancy, `rec.nontrivial(...)`, `rec.cls(label)`.
Because checks are pure functions of the case, replay files and the committed corpus are just
`{"kind":…, "case":…}` documents that are fed to the same function without any generator.
"""
import os, sys, json, time, hashlib, signal, traceback, re, collections, itertools, random

VERIF = os.path.dirname(os.path.dirname(os.path.abspath(__file__)))
REPO = os.environ.get('VERIF_REPO', '/repo')
NPROC = int(os.environ.get('VERIF_NPROC', '0')) or min(16, os.cpu_count() or 1)

MAX_SAMPLES = 14
MAX_BUCKETS = int(os.environ.get('VERIF_MAX_BUCKETS', '6'))   # distinct violation buckets reported per run
WATCHDOG_S = float(os.environ.get('VERIF_WATCHDOG', '20'))
# measurement aid (never set by registered commands): run only one driver family — cases | parallel | hypothesis | atheris | corpus
ONLY_LAYER = os.environ.get('VERIF_ONLY_LAYER')


class HarnessError(Exception):
    "Raised for problems of the machinery itself (exit 2, never VIOLATION)"


class Watchdog(BaseException):
    "CPU-time watchdog expiry inside code under test"


def _on_prof(signum, frame):
    raise Watchdog('CPU-time watchdog (%gs) expired' % WATCHDOG_S)


def install_watchdog():
    signal.signal(signal.SIGPROF, _on_prof)
    try:
        import resource
        lim = int(os.environ.get('VERIF_MEM_GB', '3')) << 30
        soft, hard = resource.getrlimit(resource.RLIMIT_AS)
        if hard == resource.RLIM_INFINITY or hard > lim:
            resource.setrlimit(resource.RLIMIT_AS, (lim, hard))
    except Exception:
        pass


class AbortCampaign(BaseException):
    "stops a Hypothesis campaign at once (used after a watchdog expiry: shrinking a 20-second case is pointless)"


MAX_WATCHDOG_HITS = 3


class guard:
    "with guard(): <one call into emmet> — arms the CPU-time watchdog for that call"
    __slots__ = ()

    def __enter__(self):
        signal.setitimer(signal.ITIMER_PROF, WATCHDOG_S)

    def __exit__(self, *a):
        signal.setitimer(signal.ITIMER_PROF, 0)
        return False


def canon(case):
    return json.dumps(case, sort_keys=True, ensure_ascii=True, separators=(',', ':'), default=repr)


def h64(s):
    return int.from_bytes(hashlib.blake2b(s.encode('utf-8', 'surrogatepass'), digest_size=8).digest(), 'big')


def emmet_frame(exc):
    "innermost traceback frame inside the emmet package: 'file:function'"
    tb = traceback.extract_tb(exc.__traceback__)
    fr = [f for f in tb if '/emmet/' in f.filename.replace('\\', '/')]
    if not fr:
        return None
    f = fr[-1]
    return '%s:%s' % (f.filename.replace('\\', '/').split('/emmet/')[-1], f.name)


def exc_bucket(exc, prefix='exc'):
    if isinstance(exc, Watchdog):
        return prefix + ':Watchdog'
    fr = emmet_frame(exc)
    return '%s:%s@%s' % (prefix, type(exc).__name__, fr or '?')


def short(x, n=300):
    s = x if isinstance(x, str) else repr(x)
    return s if len(s) <= n else s[:n] + '…(%d)' % len(s)


# ----------------------------------------------------------------------------------------------
# known findings

class Known:
    def __init__(self, prop_id):
        self.entries = []       # (bucket, regex|None, exact|None, description)
        path = os.path.join(VERIF, 'KNOWN_FINDINGS.txt')
        if not os.path.exists(path):
            return
        for line in open(path, encoding='utf-8'):
            line = line.strip()
            if not line.startswith('known:'):
                continue
            head, _, desc = line[len('known:'):].partition('::')
            fields = dict(m.groups() for m in re.finditer(r'(\w+)=((?:"(?:[^"\\]|\\.)*")|\S+)', head))
            if fields.get('property') != prop_id:
                continue
            def unq(v):
                return json.loads(v) if v is not None and v.startswith('"') else v
            self.entries.append((unq(fields.get('bucket')), unq(fields.get('kind')),
                                 re.compile(unq(fields['match'])) if 'match' in fields else None,
                                 unq(fields.get('case')), desc.strip()))

    def match(self, kind, bucket, case):
        "index of the entry this failure is attributed to, or None"
        if not self.entries:
            return None
        cj = None
        for i, (b, k, rx, exact, desc) in enumerate(self.entries):
            if b is not None and b != bucket:
                continue
            if k is not None and k != kind:
                continue
            if rx is not None or exact is not None:
                if cj is None:
                    cj = canon(case)
                if rx is not None and not rx.search(cj):
                    continue
                if exact is not None and exact != cj:
                    continue
            return i
        return None


# ----------------------------------------------------------------------------------------------
# recorder

class Rec:
    """Accumulates what checks report. One instance per process; merged by the parent."""

    def __init__(self, prop_id, known=None):
        self.prop_id = prop_id
        self.known = known or Known(prop_id)
        self.evaluations = 0
        self.nt_hashes = set()
        self.nt_counted = 0           # distinct by construction (exhaustive enumerations)
        self.classes = collections.Counter()
        self.samples = []
        self._sample_classes = set()
        self.failures = {}            # bucket -> dict(kind, case, detail, size)
        self.known_hits = collections.Counter()
        self.skipped = collections.Counter()
        self.layers = []
        self.watchdog_hits = 0
        # per-case state
        self._kind = None
        self._case = None
        self._case_fails = []
        self._case_nt = False
        self._case_cls = None

    # ---- per-case API used by check functions
    def fail(self, bucket, detail=''):
        self._case_fails.append((bucket, short(detail, 600)))

    def evals(self, n=1):
        self.evaluations += n

    def nontrivial(self, key=None, distinct=False):
        """mark the current case (or the sub-case `key` of it) as non-trivial.
        distinct=True: caller guarantees the case was never produced before in this run"""
        self._case_nt = True
        if distinct:
            self.nt_counted += 1
        else:
            base = canon(self._case) if key is None else canon([self._kind, key])
            self.nt_hashes.add(h64(base))

    def cls(self, label, n=1):
        self.classes[label] += n
        if self._case_cls is None:
            self._case_cls = label

    def skip(self, why):
        self.skipped[why] += 1

    # ---- driver side
    def begin(self, kind, case):
        self._kind, self._case = kind, case
        self._case_fails = []
        self._case_nt = False
        self._case_cls = None

    def end(self):
        """finish the current case: attribute failures; returns list of *new* (unlisted) buckets"""
        new = []
        for bucket, detail in self._case_fails:
            k = self.known.match(self._kind, bucket, self._case)
            if k is not None:
                self.known_hits[k] += 1
                continue
            size = len(canon(self._case))
            old = self.failures.get(bucket)
            if old is None or size < old['size']:
                self.failures[bucket] = dict(kind=self._kind, case=self._case, detail=detail, size=size,
                                             count=(old['count'] if old else 0) + 1)
            else:
                old['count'] += 1
            new.append(bucket)
        self._maybe_sample()
        return new

    def _maybe_sample(self):
        c = self._case_cls
        take = False
        if len(self.samples) < 4:
            take = True
        elif self._case_nt and len(self.samples) < MAX_SAMPLES and c not in self._sample_classes:
            take = True
        elif self._case_nt and len(self.samples) < 8:
            take = True
        if take:
            if c is not None:
                self._sample_classes.add(c)
            s = {'kind': self._kind, 'case': self._case}
            if c is not None:
                s['class'] = c
            if len(canon(s)) < 3000:
                self.samples.append(s)

    def run_case(self, checks, kind, case):
        if self.watchdog_hits >= MAX_WATCHDOG_HITS:
            # every expiry costs WATCHDOG_S of CPU; after a few of them the verdict is settled and the rest of this process' share is skipped
            self.skipped['skipped-after-%d-watchdog-expiries' % MAX_WATCHDOG_HITS] += 1
            return []
        self.begin(kind, case)
        try:
            checks[kind](case, self)
        except Watchdog as e:
            self.watchdog_hits += 1
            self.fail('watchdog:' + kind, str(e))
        except MemoryError as e:
            self.watchdog_hits += 1
            self.fail('watchdog:memory:' + kind, 'MemoryError under the %s GB address-space limit' % os.environ.get('VERIF_MEM_GB', '3'))
        except (HarnessError, AssertionError):
            raise
        except Exception as e:
            # an exception the check did not expect: when it was RAISED inside the library (innermost frame in emmet/) on a case of the
            # property's domain it is a finding of the library, bucketed like every other one; anything raised in the harness itself stays
            # a harness error (exit 2)
            tb = traceback.extract_tb(e.__traceback__)
            if tb and '/emmet/' in tb[-1].filename.replace('\\', '/'):
                self.fail(exc_bucket(e, 'unhandled'), '%s: %s' % (type(e).__name__, short(str(e), 200)))
            else:
                raise
        return self.end()

    # ---- merging
    def export(self):
        return dict(evaluations=self.evaluations, nt_hashes=self.nt_hashes, nt_counted=self.nt_counted,
                    classes=self.classes, samples=self.samples, failures=self.failures,
                    known_hits=self.known_hits, skipped=self.skipped)

    def merge(self, d):
        self.evaluations += d['evaluations']
        self.nt_hashes |= d['nt_hashes']
        self.nt_counted += d['nt_counted']
        self.classes.update(d['classes'])
        self.known_hits.update(d['known_hits'])
        self.skipped.update(d['skipped'])
        for s in d['samples']:
            c = s.get('class')
            if len(self.samples) < 4 or (len(self.samples) < MAX_SAMPLES and c not in self._sample_classes):
                self.samples.append(s)
                if c is not None:
                    self._sample_classes.add(c)
        for b, f in d['failures'].items():
            old = self.failures.get(b)
            if old is None:
                self.failures[b] = f
            else:
                cnt = old['count'] + f['count']
                if f['size'] < old['size']:
                    self.failures[b] = f
                self.failures[b]['count'] = cnt


# ----------------------------------------------------------------------------------------------
# generic shrinker over JSON cases (used by the non-Hypothesis drivers)

def _shrink_candidates(x):
    "yield (smaller variants of x) — structure-preserving where possible"
    if isinstance(x, str):
        n = len(x)
        if n == 0:
            return
        step = n // 2
        while step >= 1:
            for i in range(0, n, step):
                yield x[:i] + x[i + step:]
            step //= 2
        for i, ch in enumerate(x):
            if ch not in 'a1 ' and not ch.isspace():
                yield x[:i] + ('a' if not ch.isdigit() else '1') + x[i + 1:]
    elif isinstance(x, list):
        n = len(x)
        step = n // 2
        while step >= 1:
            for i in range(0, n, step):
                yield x[:i] + x[i + step:]
            step //= 2
        for i, e in enumerate(x):
            for s in _shrink_candidates(e):
                yield x[:i] + [s] + x[i + 1:]
    elif isinstance(x, dict):
        for k in sorted(x):
            for s in _shrink_candidates(x[k]):
                d = dict(x)
                d[k] = s
                yield d
    elif isinstance(x, bool):
        if x:
            yield False
    elif isinstance(x, int):
        if x > 0:
            yield 0
            if x > 1:
                yield x // 2
                yield x - 1
        elif x < 0:
            yield 0
            yield -x


def shrink_case(case, still_fails, budget=1500):
    calls = 0
    best = case
    improved = True
    while improved and calls < budget:
        improved = False
        for cand in _shrink_candidates(best):
            if calls >= budget:
                break
            if len(canon(cand)) >= len(canon(best)) and cand == best:
                continue
            calls += 1
            try:
                ok = still_fails(cand)
            except Exception:
                ok = False
            if ok:
                best = cand
                improved = True
                break
    return best


# ----------------------------------------------------------------------------------------------
# context / drivers

def _worker(args):
    mod_name, fn_name, shard, nshards, seed, tier, extra = args
    sys.dont_write_bytecode = True
    install_watchdog()
    import importlib
    mod = importlib.import_module(mod_name)
    rec = Rec(mod.PROP_ID)
    sub = Ctx(mod, tier, seed, rec=rec, worker=True)
    try:
        getattr(mod, fn_name)(sub, shard, nshards, *extra)
    except Exception:
        return {'error': traceback.format_exc()}
    return rec.export()


class Ctx:
    def __init__(self, mod, tier, seed, rec=None, worker=False):
        self.mod = mod
        self.prop_id = mod.PROP_ID
        self.tier = tier
        self.seed = seed
        self.rec = rec or Rec(self.prop_id)
        self.worker = worker
        self.t0 = time.time()
        self.thorough = tier == 'thorough'
        self.exhaustive_layers = []
        self.notes = []

    def pick(self, quick, thorough):
        return thorough if self.thorough else quick

    def rng(self, *key):
        return random.Random('%d/%s' % (self.seed, '/'.join(map(str, key))))

    # ---- serial driver
    def run_cases(self, kind, cases):
        if ONLY_LAYER and not self.worker and ONLY_LAYER != 'cases':
            return
        checks = self.mod.CHECKS
        rec = self.rec
        for case in cases:
            rec.run_case(checks, kind, case)

    # ---- parallel driver: fn(ctx, shard, nshards, *extra) is a module-level function of the property module
    def run_parallel(self, fn_name, nshards=None, extra=()):
        nshards = nshards or NPROC
        if self.worker:
            raise HarnessError('nested run_parallel')
        if ONLY_LAYER and ONLY_LAYER != 'parallel':
            return
        args = [(self.mod.__name__, fn_name, k, nshards, self.seed, self.tier, tuple(extra)) for k in range(nshards)]
        if NPROC <= 1:
            results = [_worker(a) for a in args]
        else:
            import multiprocessing as mp
            with mp.get_context('fork').Pool(min(NPROC, nshards)) as pool:
                results = pool.map(_worker, args, chunksize=1)
        for r in results:
            if 'error' in r:
                raise HarnessError('worker failed:\n' + r['error'])
            self.rec.merge(r)

    # ---- Hypothesis driver
    def run_hypothesis(self, kind, strategy, max_examples, seed_key=0, stateful=None):
        """collect-then-shrink: find a failing example, let Hypothesis shrink it while the *same bucket*
        keeps failing, record it, then restart with the remaining budget ignoring that bucket."""
        if ONLY_LAYER and not self.worker and ONLY_LAYER != 'hypothesis':
            return
        import hypothesis
        from hypothesis import settings, HealthCheck, Phase, given, seed as hseed
        checks = self.mod.CHECKS
        rec = self.rec
        reported = set()
        state = {'target': None, 'last': None, 'n': 0}

        def body(case):
            state['n'] += 1
            new = rec.run_case(checks, kind, case)
            new = [b for b in new if b not in reported]
            if not new:
                return
            wd = [b for b in new if b.startswith('watchdog:')]
            if wd:
                state['target'] = wd[0]
                state['last'] = case
                raise AbortCampaign()
            if state['target'] is None:
                state['target'] = new[0]
            if state['target'] in new:
                state['last'] = case
                raise AssertionError('bucket ' + state['target'])

        remaining = max_examples
        rounds = 0
        while remaining > 0 and rounds < MAX_BUCKETS:
            rounds += 1
            state.update(target=None, last=None, n=0)
            st = settings(max_examples=remaining, database=None, deadline=None, derandomize=False,
                          report_multiple_bugs=False, print_blob=False,
                          suppress_health_check=list(HealthCheck),
                          phases=[Phase.generate, Phase.target, Phase.shrink])
            test = hseed(self.seed * 1000003 + seed_key * 101 + rounds)(st(given(strategy)(body)))
            try:
                test()
                break
            except AbortCampaign:
                f = rec.failures.get(state['target'])
                if f is not None:
                    f['shrunk'] = 'not-shrunk(watchdog)'
                break
            except hypothesis.errors.Unsatisfiable as e:
                raise HarnessError('generator unsatisfiable: %s' % e)
            except Exception as e:
                # AssertionError: our own failure signal after Hypothesis' final replay. Anything else while a target bucket is set
                # is an internal error of the shrinker (seen: ValueError in choice_to_index): keep the smallest failing case seen so far.
                b = state['target']
                if b is None:
                    raise
                if not isinstance(e, AssertionError):
                    self.note('hypothesis shrinker aborted with %s: %s' % (type(e).__name__, e))
                reported.add(b)
                # the last raising execution is Hypothesis' final replay of the minimal example
                f = rec.failures.get(b)
                if f is not None and state['last'] is not None:
                    f['case'] = state['last']
                    f['size'] = len(canon(state['last']))
                    f['shrunk'] = 'hypothesis'
                    r2 = Rec(rec.prop_id, rec.known)
                    r2.run_case(checks, kind, state['last'])
                    det = [d for bb, d in r2._case_fails if bb == b]
                    if det:
                        f['detail'] = det[0]
                remaining -= min(state['n'], remaining)

    # ---- coverage-guided driver (atheris / libFuzzer); see vlib/fuzz.py
    def run_atheris(self, kind, runs, nprocs=None, guided=False):
        from vlib import fuzz
        if self.worker:
            raise HarnessError('run_atheris inside a worker')
        if ONLY_LAYER and ONLY_LAYER != 'atheris':
            return
        if not fuzz.available():
            # an additional layer: its absence is recorded, it is neither a pass of that layer nor an alarm
            self.note('atheris not importable (setup.sh installs it into .deps): coverage-guided layer skipped')
            self.rec.classes['atheris-unavailable'] += 1
            return
        fuzz.run_parent(self, kind, runs, nprocs or NPROC, guided)

    def exhaustive(self, what):
        self.exhaustive_layers.append(what)

    def note(self, s):
        self.notes.append(s)


# ----------------------------------------------------------------------------------------------
# finishing: shrink leftovers, replay files, evidence, verdict

def _shrink_failures(mod, rec, tier):
    checks = mod.CHECKS
    for bucket, f in list(rec.failures.items()):
        if f.get('shrunk'):
            continue
        kind = f['kind']
        if kind not in getattr(mod, 'SHRINK', ()):
            # the generic JSON shrinker is only sound for kinds whose every JSON-smaller case is still inside the domain
            continue

        def still(c, bucket=bucket, kind=kind):
            r = Rec(rec.prop_id, rec.known)
            new = r.run_case(checks, kind, c)
            return bucket in new
        try:
            small = shrink_case(f['case'], still, budget=1500 if tier == 'quick' else 6000)
        except Watchdog:
            small = f['case']
        if small != f['case']:
            r = Rec(rec.prop_id, rec.known)
            r.begin(kind, small)
            try:
                checks[kind](small, r)
            except Watchdog as e:
                r.fail('watchdog:' + kind, str(e))
            det = [d for b, d in r._case_fails if b == bucket]
            f['case'] = small
            if det:
                f['detail'] = det[0]
            f['shrunk'] = 'ddmin'


def finish(ctx):
    mod, rec = ctx.mod, ctx.rec
    _shrink_failures(mod, rec, ctx.tier)
    replay_dir = os.path.join(VERIF, 'replay')
    lines = []
    n = 0
    for bucket, f in sorted(rec.failures.items(), key=lambda kv: kv[0])[:MAX_BUCKETS]:
        n += 1
        os.makedirs(replay_dir, exist_ok=True)
        path = os.path.join(replay_dir, '%s-%d.json' % (ctx.prop_id, n))
        with open(path, 'w', encoding='utf-8') as fh:
            json.dump({'property': ctx.prop_id, 'kind': f['kind'], 'case': f['case'], 'bucket': bucket,
                       'detail': f['detail'], 'count_in_run': f['count'], 'seed': ctx.seed, 'tier': ctx.tier,
                       'shrunk_by': f.get('shrunk')}, fh, indent=1, ensure_ascii=True, default=repr)
        lines.append('VIOLATION property=%s replay=%s' % (ctx.prop_id, path))
        print('  bucket=%s count=%d\n  case=%s\n  detail=%s' % (bucket, f['count'], short(canon(f['case']), 400), f['detail']))
    for k, cnt in sorted(rec.known_hits.items()):
        print('KNOWN-FINDING: property=%s %s (hit by %d generated cases)' % (ctx.prop_id, rec.known.entries[k][4], cnt))
    # listed findings are reported even when no generated case happened to hit them
    for k, e in enumerate(rec.known.entries):
        if k not in rec.known_hits:
            print('KNOWN-FINDING: property=%s %s (hit by 0 generated cases in this run)' % (ctx.prop_id, e[4]))
    write_evidence(ctx, len(rec.failures))
    for l in lines:
        print(l)
    total = len(rec.nt_hashes) + rec.nt_counted
    print('%s %s seed=%d: %d evaluations, %d distinct non-trivial, %d violation bucket(s), %.1fs' % (
        ctx.prop_id, ctx.tier, ctx.seed, rec.evaluations, total, len(rec.failures), time.time() - ctx.t0))
    for lab, c in rec.classes.most_common():
        if rec.evaluations and c * 100 < rec.evaluations and lab.startswith('!'):
            print('  warning: class %s has < 1%% share (%d)' % (lab, c))
    return 1 if rec.failures else 0


def write_evidence(ctx, violations):
    rec = ctx.rec
    ev = {
        'property_id': ctx.prop_id,
        'tier': ctx.tier,
        'seed': ctx.seed,
        'level': 'exploration',
        'coverage': {
            'evaluations': rec.evaluations,
            'distinct_nontrivial': len(rec.nt_hashes) + rec.nt_counted,
            'rule': ctx.mod.RULE,
            'samples': rec.samples[:MAX_SAMPLES],
            'exhaustive': bool(ctx.exhaustive_layers),
            'exhaustive_layers': ctx.exhaustive_layers,
            'classes': dict(rec.classes.most_common()),
            'skipped': dict(rec.skipped),
            'known_findings_hit': {rec.known.entries[k][4]: c for k, c in rec.known_hits.items()},
            'notes': ctx.notes,
        },
        'assumptions': list(getattr(ctx.mod, 'ASSUME', [])),
        'wall_s': round(time.time() - ctx.t0, 2),
        'violations': violations,
    }
    d = os.path.join(VERIF, 'evidence')
    os.makedirs(d, exist_ok=True)
    tmp = os.path.join(d, '.%s.json.tmp' % ctx.prop_id)
    with open(tmp, 'w', encoding='utf-8') as fh:
        json.dump(ev, fh, indent=1, ensure_ascii=True, default=repr)
    os.replace(tmp, os.path.join(d, '%s.json' % ctx.prop_id))


def load_corpus(prop_id):
    d = os.path.join(VERIF, 'corpus', prop_id)
    out = []
    if os.path.isdir(d):
        for fn in sorted(os.listdir(d)):
            if fn.endswith('.json'):
                doc = json.load(open(os.path.join(d, fn), encoding='utf-8'))
                items = doc if isinstance(doc, list) else [doc]
                for it in items:
                    out.append((it['kind'], it['case']))
    return out


def run_corpus(ctx):
    n = 0
    if ONLY_LAYER and ONLY_LAYER != 'corpus':
        return
    for kind, case in load_corpus(ctx.prop_id):
        if kind not in ctx.mod.CHECKS:
            raise HarnessError('corpus entry with unknown kind %r' % kind)
        ctx.rec.run_case(ctx.mod.CHECKS, kind, case)
        n += 1
    ctx.rec.classes['corpus-replayed'] += n


# ----------------------------------------------------------------------------------------------
# small helpers shared by property modules

def all_strings(alphabet, maxlen, minlen=0):
    for L in range(minlen, maxlen + 1):
        for tup in itertools.product(alphabet, repeat=L):
            yield ''.join(tup)


def sharded(iterable, shard, nshards):
    return itertools.islice(iterable, shard, None, nshards)
