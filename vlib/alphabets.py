"G6 — punctuation alphabets, seed inputs and mutators"
import os, json

MARKUP = list("aA1$#@-.*>+^()[]{}'\"= \\/:!")
MARKUP_X = MARKUP + list("%,_?&;|~\t") + ['é', '☃', 'b', 'l', 'o', 'r', 'e', 'm', '2', '0']
CSS_ABBR = list("aA1$#@-.,+()'\"% !:/tf{}")
CSS_ABBR_X = CSS_ABBR + list("\\_*;e2pmx0g") + ['é']
HTML_DOC = list("<>/ab \"'=!-?[]{}\\")
HTML_TOKENS = ['br', 'script', 'style', '<![CDATA[', ']]>', '<!--', '-->', '<?', '?>', '\n', 'img', 'type=', 'text/x-template']
CSS_DOC = list("{}:;a \"'\\()/*\n-,@$")
CSS_TOKENS = ['/*', '*/', '//', 'url(', '#{', '@media', '&:hover', '::', '--x', '$v', '!important', '\t']
MATH = list("12.+-*/\\() a")

_seeds = None


def test_seeds():
    global _seeds
    if _seeds is None:
        _seeds = json.load(open(os.path.join(os.path.dirname(__file__), 'test_seeds.json'), encoding='utf-8'))
    return _seeds


MARKUP_SEEDS = [
    "ul#nav>li.item$*4>a{Item $}", "div>(header>ul>li*2>a)+footer>p", "a[href='x' title=\"y\"]{t}",
    "p>{Click }+a{here}+{ to continue}", "ul>li*>a", "input[disabled. foo=bar]/", "Foo.Bar>Baz.{x}", "lorem10*3",
    "div.b_m>.-e", "a>b^c", "a>b>c^^d", "(a+b)*2>c", "ul>li.item$$@-3*2", "a[b=${1:c}]{${2} $# \\$}", "div{a{b}c}",
    "table>.row>.col", "p{text $#}*", "a[!b c. d='e f' g={h}]", "x:y-z!", "div.a.b#c#d[e]", "a*2>b*3>c{$@^}", "!", "html:5", "ul.nav>.-item*2>._active",
    "{text}", "a{$$@5}*3", "select>option[value=$]*2", "em>strong^^p", "((a>b)+c)*2+d", "a/+b/", "1/2", ".a/5", "a[b='c\"d']",
]

CSS_SEEDS = [
    "m10", "p10-20", "p-10--20", "bd1-s#fc0", "c#f.5", "c#e7bc0b", "bg#t", "m10p20e", "fz1.5", "lh1.", "op.5", "p0!", "m10+p20",
    "trf:rx", "trf-s(2, 3)", "lg(to right, #0, #f00.5)", "bgc#0.25!", "--foo-bar", "$v", "@k-name10", "pos:a", "d:n+fl:l",
    "w100p", "mten", "animic", "fw700", "z10", "bd.5-dashed-#333", "p${1:10}", "c'red'", 'ff"Arial, sans"', "m-a0-a", "gtc:repeat(2,auto)",
]


def mutate(rng, s, alphabet, tokens=(), max_edits=3):
    "≤ max_edits insert/delete/truncate/duplicate/swap edits"
    s = list(s)
    for _ in range(rng.randint(1, max_edits)):
        op = rng.random()
        p = rng.randrange(len(s) + 1)
        if op < 0.35:
            s.insert(p, rng.choice(alphabet))
        elif op < 0.45 and tokens:
            s[p:p] = list(rng.choice(tokens))
        elif op < 0.65 and s:
            del s[min(p, len(s) - 1)]
        elif op < 0.75:
            s = s[:p]
        elif op < 0.85 and s:
            q = rng.randrange(len(s) + 1)
            a, b = min(p, q), max(p, q)
            s[a:a] = s[a:b]
        elif len(s) >= 2:
            i = min(p, len(s) - 2)
            s[i], s[i + 1] = s[i + 1], s[i]
    return ''.join(s)
