"Configuration pools and Hypothesis strategies for expand() configs (all JSON-serialisable)"
import re
from hypothesis import strategies as st

MARKUP_SYNTAXES = ['html', 'xml', 'xsl', 'jsx', 'js', 'pug', 'slim', 'haml', 'vue', 'svelte', 'xhtml']
CSS_SYNTAXES = ['css', 'sass', 'scss', 'less', 'sss', 'stylus']

MARKUP_FIXED = [
    ('html', {}),
    ('jsx', {'syntax': 'jsx'}),
    ('pug', {'syntax': 'pug'}),
    ('xsl', {'syntax': 'xsl'}),
    ('text', {'text': 'T'}),
    ('textlist', {'text': ['x', '', 'y']}),
    ('bemcomment', {'options': {'bem.enabled': True, 'comment.enabled': True}}),
    ('ctx', {'context': {'name': 'ul', 'attributes': {'class': 'b'}}, 'options': {'bem.enabled': True}}),
]
CSS_FIXED = [
    ('css', {'type': 'stylesheet'}),
    ('stylus', {'type': 'stylesheet', 'syntax': 'stylus'}),
    ('valuectx', {'type': 'stylesheet', 'context': {'name': 'margin'}}),
    ('section', {'type': 'stylesheet', 'context': {'name': '@@section'}}),
    ('json', {'type': 'stylesheet', 'options': {'stylesheet.json': True}}),
]

_texts = st.one_of(
    st.sampled_from(['T', 'a b', 'http://x.io', 'me@x.io', '$#', '*', 'ul>li*3', '${1:x}', '\\', '', ' ', '$$@-', 'www.x.io']),
    st.lists(st.sampled_from(['x', '', ' ', 'y z', '$#', '*2', 'a{b}', '- item', '1. one', '${1}', '\\$']), max_size=4),
)


def markup_options():
    return st.fixed_dictionaries({}, optional={
        'output.format': st.booleans(),
        'output.indent': st.sampled_from(['\t', '  ', '--', '']),
        'output.baseIndent': st.sampled_from(['', '  ', '\t']),
        'output.newline': st.sampled_from(['\n', '\r\n', '\r']),
        'output.tagCase': st.sampled_from(['', 'upper', 'lower']),
        'output.attributeCase': st.sampled_from(['', 'upper', 'lower']),
        'output.attributeQuotes': st.sampled_from(['double', 'single']),
        'output.formatLeafNode': st.booleans(),
        'output.formatSkip': st.lists(st.sampled_from(['html', 'a', 'div', 'p']), max_size=2),
        'output.formatForce': st.lists(st.sampled_from(['body', 'a', 'span']), max_size=2),
        'output.inlineBreak': st.integers(0, 5),
        'output.compactBoolean': st.booleans(),
        'output.reverseAttributes': st.booleans(),
        'output.selfClosingStyle': st.sampled_from(['html', 'xhtml', 'xml']),
        'markup.href': st.booleans(),
        'comment.enabled': st.booleans(),
        'comment.trigger': st.lists(st.sampled_from(['id', 'class', 'title']), max_size=2),
        'comment.before': st.sampled_from(['', '<!-- [#ID] -->\n', '[NOPE]']),
        'comment.after': st.sampled_from(['\n<!-- /[#ID][.CLASS] -->', '', '<!-- [TITLE>t] -->']),
        'bem.enabled': st.booleans(),
        'bem.element': st.sampled_from(['__', '-', '']),
        'bem.modifier': st.sampled_from(['_', '--']),
        'jsx.enabled': st.booleans(),
    })


def markup_config():
    return st.fixed_dictionaries({}, optional={
        'syntax': st.sampled_from(MARKUP_SYNTAXES + ['nosuch']),
        'text': _texts,
        'options': markup_options(),
        'context': st.sampled_from([{'name': 'ul'}, {'name': 'ul', 'attributes': {'class': 'b'}}, {'name': 'p'}, {'name': 'tr'},
                                    {'name': 'div', 'attributes': {'class': 'b__e b_m', 'id': 'x'}}, {'name': ''}]),
        'maxRepeat': st.integers(1, 20),
        'variables': st.fixed_dictionaries({}, optional={'lang': st.just('ru'), 'foo': st.just('bar'), 'charset': st.just('')}),
        'snippets': st.fixed_dictionaries({}, optional={'a': st.just('a[href]'), 'x1': st.just('ul>li*2'), 'foo': st.just('foo.bar>baz'),
                                                         'x2': st.just('x1>x2'), 'zz': st.just('{txt}')}),
    })


def css_options():
    return st.fixed_dictionaries({}, optional={
        'stylesheet.shortHex': st.booleans(),
        'stylesheet.between': st.sampled_from([': ', ':', ' ', '']),
        'stylesheet.after': st.sampled_from([';', '']),
        'stylesheet.intUnit': st.sampled_from(['px', 'pt', '']),
        'stylesheet.floatUnit': st.sampled_from(['em', 'rem', '']),
        'stylesheet.unitAliases': st.sampled_from([{'e': 'em', 'p': '%', 'x': 'ex', 'r': 'rem'}, {}, {'p': 'pt', 'zz': 'vmax'}]),
        'stylesheet.json': st.booleans(),
        'stylesheet.jsonDoubleQuotes': st.booleans(),
        'stylesheet.fuzzySearchMinScore': st.sampled_from([0, 0.3, 0.9, 1]),
        'stylesheet.skipUnmatched': st.booleans(),
        'stylesheet.keywords': st.sampled_from([['auto', 'inherit', 'unset', 'none'], [], ['a']]),
        'stylesheet.unitless': st.sampled_from([['z-index', 'line-height', 'opacity', 'font-weight', 'zoom', 'flex', 'flex-grow', 'flex-shrink'], [], ['margin']]),
        'output.format': st.booleans(),
        'output.newline': st.sampled_from(['\n', '\r\n']),
    })


def css_config():
    return st.fixed_dictionaries({'type': st.just('stylesheet')}, optional={
        'syntax': st.sampled_from(CSS_SYNTAXES + ['nosuch']),
        'options': css_options(),
        'context': st.sampled_from([{'name': 'margin'}, {'name': '@@section'}, {'name': '@@property'}, {'name': '@@global'},
                                    {'name': 'color'}, {'name': 'nosuch'}, {'name': ''}]),
        'snippets': st.fixed_dictionaries({}, optional={'m': st.just('margin:auto|0'), 'xx': st.just('x-prop:a|b|${1:c}'),
                                                         'raw': st.just('@raw ${1:x} {\n\t${0}\n}'), 'gt': st.just('grid-template:repeat(2,auto)')}),
    })


_rep = re.compile(r'\*(\d+)')
_digits = re.compile(r'\d{4,}')


_lorem_ctr = re.compile(r'(lorem\d{0,3})\$[$@^\d-]*', re.I)


def bound_repeats(s, limit=300):
    """Keeps generated abbreviations cheap: digit runs ≤ 3 digits and the product of all `*N` counts ≤ limit.
    (Repeat counts and lorem word counts are legitimate work, not a termination question.)"""
    s = _digits.sub(lambda m: m.group(0)[:3], s)
    # a counter spliced into a `lorem` word count (`lorem5$4` under `*31` → lorem5314: 87 MB of text, 18 s) is the same legitimate work in disguise
    s = _lorem_ctr.sub(lambda m: m.group(1), s)
    for _ in range(4):
        prod = 1
        for m in _rep.finditer(s):
            prod *= max(1, int(m.group(1)))
        if prod <= limit:
            return s
        s = _rep.sub(lambda m: '*' + (m.group(1)[:-1] if len(m.group(1)) > 1 else '2'), s)
    return _rep.sub('*2', s)
