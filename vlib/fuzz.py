"""
Coverage-guided layer (atheris / libFuzzer) for the string-level properties.

A property module that wants it exposes

    FUZZ = {kind: {'decode': fn(bytes) -> case | None,      # bytes -> JSON case of CHECKS[kind] (None: outside the domain, skipped)
                   'seeds':  fn() -> iterable of bytes,      # optional starting corpus (valid inputs from the repository's tests)
                   'dict':   [tokens],                       # optional libFuzzer dictionary
                   'max_len': 64}}

and calls `ctx.run_atheris(kind, runs)` from run(). The parent starts one child interpreter per core; each child instruments the
`emmet` package (bytecode coverage), feeds every input libFuzzer produces through the *same* pure check function as every other driver
(`rec.run_case`), never lets a failure escape (libFuzzer would stop at the first one) and dumps its recorder when its execution budget is
used up. Odd shards start from an empty corpus, even ones from the seeds. The semantic oracle is therefore inside the target; a failing
case is a JSON case like any other and is replayed with `./check <ID> --replay`.

libFuzzer's `-seed` pins a campaign only approximately; what is reproducible is the saved case.
A second mode drives STRUCTURED generators: a module exposes `GUIDED = {kind: zero-argument function returning a Hypothesis strategy of cases}` and calls
`ctx.run_atheris(kind, runs, guided=True)`; the child wraps `@given(strategy)` around the check and hands `test.hypothesis.fuzz_one_input` to libFuzzer, so the
byte string libFuzzer mutates is Hypothesis' choice sequence and coverage feedback steers the grammar-directed generators (scripts, documents, histories of options).
All shards start from a few pseudo-random blobs there (the byte format is Hypothesis' own; strings too short to build a case are rejected as overruns).

Child protocol: python -m vlib.fuzz <module> <kind> <runs> <seed> <shard> <out.pickle> [guided]
"""
import os, sys, pickle, subprocess, tempfile, shutil, time

VERIF = os.path.dirname(os.path.dirname(os.path.abspath(__file__)))


def available():
    try:
        import atheris  # noqa: F401
        return True
    except Exception:
        return False


def run_parent(ctx, kind, runs, nprocs, guided=False):
    from vlib import core
    tmp = tempfile.mkdtemp(prefix='vfuzz-')
    t0 = time.time()
    try:
        procs = []
        env = dict(os.environ, PYTHONHASHSEED='0', PYTHONDONTWRITEBYTECODE='1')
        env['PYTHONPATH'] = os.pathsep.join([VERIF, os.path.join(VERIF, '.deps')] + ([env['PYTHONPATH']] if env.get('PYTHONPATH') else []))
        for k in range(nprocs):
            out = os.path.join(tmp, 'out-%d.pickle' % k)
            log = open(os.path.join(tmp, 'log-%d.txt' % k), 'wb')
            p = subprocess.Popen([sys.executable, '-m', 'vlib.fuzz', ctx.mod.__name__, kind, str(runs), str(ctx.seed), str(k), out] + (['guided'] if guided else []),
                                 cwd=tmp, env=env, stdout=log, stderr=subprocess.STDOUT)
            procs.append((p, out, log, k))
        total_cov = 0
        for p, out, log, k in procs:
            p.wait()
            log.close()
            if not os.path.exists(out):
                tail = open(os.path.join(tmp, 'log-%d.txt' % k), 'rb').read()[-1500:].decode('utf-8', 'replace')
                raise core.HarnessError('atheris child %d of %s/%s left no result (exit %s):\n%s' % (k, ctx.prop_id, kind, p.returncode, tail))
            d = pickle.load(open(out, 'rb'))
            meta = d.pop('_fuzz')
            total_cov = max(total_cov, meta['corpus'])
            ctx.rec.merge(d)
            ctx.rec.classes['atheris-executions'] += meta['execs']
            ctx.rec.classes['atheris-outside-domain'] += meta['undecodable']
        ctx.note('atheris %s%s: %d children × %d executions (%s), largest evolved corpus %d inputs, %.0fs'
                 % (kind, ' [Hypothesis strategy under libFuzzer]' if guided else '', nprocs, runs,
                    'from pseudo-random blobs' if guided else 'half from an empty corpus, half seeded', total_cov, time.time() - t0))
    finally:
        shutil.rmtree(tmp, ignore_errors=True)


def child(argv):
    mod_name, kind, runs, seed, shard, out = argv[0], argv[1], int(argv[2]), int(argv[3]), int(argv[4]), argv[5]
    guided = len(argv) > 6 and argv[6] == 'guided'
    sys.dont_write_bytecode = True
    import atheris
    from vlib import core
    repo = core.REPO
    if sys.path[0] != repo:
        sys.path.insert(0, repo)
    with atheris.instrument_imports(include=['emmet'], enable_loader_override=False):
        import emmet  # noqa: F401
        import importlib
        mod = importlib.import_module(mod_name)
    assert os.path.abspath(emmet.__file__).startswith(os.path.abspath(repo) + os.sep), emmet.__file__
    import signal
    signal.signal(signal.SIGPROF, core._on_prof)
    spec = {'max_len': 4096} if guided else mod.FUZZ[kind]
    decode = None if guided else spec['decode']
    checks = mod.CHECKS
    rec = core.Rec(mod.PROP_ID)
    corpus = os.path.join(os.getcwd(), 'corpus-%d' % shard)
    os.makedirs(corpus, exist_ok=True)
    if guided:
        # Hypothesis reads its choices from the byte string: an empty corpus only yields strings too short to build a case ("overrun"),
        # so the starting corpus is a handful of pseudo-random blobs (a pure function of seed and shard)
        import random
        r = random.Random('%d/%d/guided' % (seed, shard))
        for i in range(24):
            with open(os.path.join(corpus, 'blob-%02d' % i), 'wb') as fh:
                fh.write(bytes(r.getrandbits(8) for _ in range(r.choice((64, 128, 256, 512, 1024)))))
    if not guided and shard % 2 == 0 and spec.get('seeds'):
        for i, b in enumerate(spec['seeds']()):
            with open(os.path.join(corpus, 'seed-%05d' % i), 'wb') as fh:
                fh.write(b)
    args = [sys.argv[0], corpus, '-runs=%d' % (runs * 4), '-seed=%d' % (seed * 1000 + shard + 1), '-max_len=%d' % spec.get('max_len', 64),
            '-timeout=600', '-rss_limit_mb=4096', '-print_final_stats=0', '-verbosity=0', '-len_control=%d' % (0 if guided else 20)]
    if spec.get('dict'):
        dpath = os.path.join(os.getcwd(), 'dict-%d.txt' % shard)
        with open(dpath, 'w', encoding='ascii') as fh:
            for tok in spec['dict']:
                fh.write('"%s"\n' % ''.join(c if (32 <= ord(c) < 127 and c not in '"\\') else '\\x%02x' % b
                                            for c in tok for b in (c.encode('utf-8') if ord(c) >= 127 else [ord(c)])))
        args.append('-dict=' + dpath)
    state = {'execs': 0, 'undecodable': 0}

    def finish():
        d = rec.export()
        try:
            ncorp = len(os.listdir(corpus))
        except OSError:
            ncorp = 0
        d['_fuzz'] = dict(execs=state['execs'], undecodable=state['undecodable'], corpus=ncorp)
        with open(out + '.tmp', 'wb') as fh:
            pickle.dump(d, fh)
        os.replace(out + '.tmp', out)
        sys.stdout.flush()
        os._exit(0)

    if guided:
        from hypothesis import given, settings, HealthCheck

        @settings(database=None, deadline=None, suppress_health_check=list(HealthCheck))
        @given(mod.GUIDED[kind]())
        def test(case):
            rec.run_case(checks, kind, case)
        fuzz_one = test.hypothesis.fuzz_one_input

        def one_guided(data):
            state['execs'] += 1
            if fuzz_one(data) is None:
                state['undecodable'] += 1       # choice sequence rejected by the strategy (filter / too short)
            if state['execs'] >= runs:
                finish()
        atheris.Setup(args, one_guided)
        atheris.Fuzz()
        finish()

    def one(data):
        # libFuzzer first replays the starting corpus; those executions count too
        state['execs'] += 1
        try:
            case = decode(data)
        except (UnicodeDecodeError, ValueError, IndexError):
            case = None
        if case is None:
            state['undecodable'] += 1
        else:
            rec.run_case(checks, kind, case)
        if state['execs'] >= runs:
            finish()

    atheris.Setup(args, one)
    atheris.Fuzz()
    finish()


# helpers for decoders -----------------------------------------------------------------------------

def text_of(data):
    "bytes -> str: UTF-8 where valid, undecodable bytes dropped (so every byte string maps into the domain of 'any string')"
    return data.decode('utf-8', 'ignore')


if __name__ == '__main__':
    try:
        child(sys.argv[1:])
    except SystemExit:
        raise
    except BaseException:
        import traceback
        traceback.print_exc()
        sys.stdout.flush()
        os._exit(3)
