"""
G4 — CSS/SCSS/LESS documents with ground truth. A document is JSON; `build()` writes the text and records the offsets of every rule
(selector range, `{` and `}` offsets) and every declaration (name range, colon, value range, `;` offset, value tokens).

node := {'t': 'rule', 'sel': str, 'gap': str, 'items': [node], 'tail': str}
      | {'t': 'decl', 'name': str, 'pre': str, 'post': str, 'value': [token...], 'vsep': [sep...], 'gap': str, 'term': ';' | ''}
      | {'t': 'ws', 's': str}            white space and comments between items
"""
from hypothesis import strategies as st

SPACE = ' \t\n\r\xa0'


class N:
    __slots__ = ('kind', 'parent', 'children', 'start', 'end', 'sel', 'open', 'close', 'name', 'colon', 'value', 'semi', 'tokens', 'depth', 'index', 'terminated')

    def __init__(self, kind):
        self.kind = kind
        self.children = []
        self.parent = None


def build(doc):
    out = []
    n = [0]
    nodes = []

    def w(s):
        out.append(s)
        n[0] += len(s)

    def decl(d, parent, depth):
        x = N('decl')
        x.parent = parent
        x.depth = depth
        x.start = n[0]
        w(d['name'])
        x.name = (x.start, n[0])
        w(d.get('pre') or '')
        x.colon = n[0]
        w(':')
        w(d.get('post') or '')
        vs = n[0]
        x.tokens = []
        toks = d['value']
        seps = d.get('vsep') or []
        for i, t in enumerate(toks):
            if i:
                w(seps[i - 1] if i - 1 < len(seps) else ' ')
            a = n[0]
            w(t)
            x.tokens.append((a, n[0]))
        x.value = (vs, n[0]) if toks else None
        w(d.get('gap') or '')
        x.terminated = d.get('term', ';') == ';'
        if x.terminated:
            x.semi = n[0]
            w(';')
            x.end = n[0]
        else:
            x.semi = None
            x.end = x.value[1] if x.value else x.colon + 1
        if x.value is None:
            # empty value: the scanner reports it at the terminator
            p = x.semi if x.semi is not None else n[0]
            x.value = (p, p)
        nodes.append(x)
        parent.children.append(x)

    def rule(d, parent, depth):
        x = N('rule')
        x.parent = parent
        x.depth = depth
        x.start = n[0]
        w(d['sel'])
        x.sel = (x.start, n[0])
        w(d.get('gap') or '')
        x.open = n[0]
        w('{')
        items(d.get('items') or [], x, depth + 1)
        x.close = n[0]
        w('}')
        x.end = n[0]
        nodes.append(x)
        parent.children.append(x)

    def items(lst, parent, depth):
        for d in lst:
            if d['t'] == 'ws':
                w(d['s'])
            elif d['t'] == 'decl':
                decl(d, parent, depth)
            else:
                rule(d, parent, depth)
    root = N('root')
    root.depth = -1
    items(doc, root, 0)
    return ''.join(out), nodes, root


def trimmed(src, a, b):
    while a < b and src[a] in SPACE:
        a += 1
    while b > a and src[b - 1] in SPACE:
        b -= 1
    return (a, b)


# ------------------------------------------------------------------------------------------- strategies
SELECTORS = ['a', '.b', 'a:hover', 'a::before', '@media (min-width: 10px)', 'a[title="{;}"]', '&.x', '> li', 'a, b', 'ul li', '@include foo($a: 1)', 'a:not(.b)',
             '@media screen and (max-width:100px)', '#id.cls', 'a /* {;} */ b', '@supports (display: grid)', '&:nth-child(2n+1)', 'input[type="text"]', "a[href='}']", '.a::after', '@font-face', 'a:hover, a:focus', 'li:first-child:hover', 'a:not(.b):hover', 'a:hover:focus::after', 'a : hover', ':root', '::selection', ':host(.x) a', ':not(p)::before', 'a[title="it\'s"]', "q[cite='\"{']"]
NAMES = ['color', 'margin', '$v', '--x', 'background', 'a-b', '@var', 'content', 'font-family', '-webkit-x', '*zoom']
TOKENS = ['red', '10px', '20px', 'url("a;b{}")', "'x:y'", 'calc(1px + (2px * 3))', '#fff', 'rgba(0, 0, 0, .5)', 'solid', '"}"', "'\\''", 'url(a.png)', '1.5em', '-1px', '!important', 'var(--x, 1px)',
          'no-repeat', '"a\\"b"', 'fn(a;b)', '100%', 'fn(b:c)', 'url(data:image/png;base64,AA==)', 'map-get((k: v), k)', 'f( ; : )',
          '"it\'s"', "'\"}'", "'say \"hi;\"'", '"a\'b{c\'d"',
          # unquoted `//` (protocol-relative and absolute URLs): no comment syntax of the scanned languages inside a value
          'url(//cdn.z/i.png)', 'url(http://x.y/z.png)']
WS = ['', ' ', '\n', '\n  ', ' /* c; } { */ ', '\t', '/* a:b */', '\n\n', ' /**/ ', '/* x **/', '/***/', '/** { **/ ', '/* * / */']


def decl_strategy(allow_unterminated=False):
    vsep = st.sampled_from([' ', ' ', '  ', ', ', ',', ' / ', '\n  ', ' /* x */ '])
    val = st.lists(st.sampled_from(TOKENS), min_size=0, max_size=4)
    term = st.sampled_from([';', ';', ';', '']) if allow_unterminated else st.just(';')
    return st.builds(lambda name, pre, post, v, seps, gap, t: {'t': 'decl', 'name': name, 'pre': pre, 'post': post, 'value': v, 'vsep': seps, 'gap': gap if v else '', 'term': t},
                     st.sampled_from(NAMES), st.sampled_from(['', '', ' ', '/* p */']), st.sampled_from(['', ' ', ' ', '\n\t', ' /* c; */ ', '/*:*/']), val, st.lists(vsep, min_size=3, max_size=3),
                     st.sampled_from(['', '', '', ' ', ' /* ;x */', '/*}*/ ']), term)


def ws_strategy():
    return st.sampled_from(WS).map(lambda s: {'t': 'ws', 's': s})


def interleave(items, wss, unterminated_ok):
    "white space/comments between items; an unterminated declaration is only legal as the last item of a body"
    out = []
    for i, it in enumerate(items):
        out.append(wss[i % len(wss)] if wss else {'t': 'ws', 's': ''})
        if it['t'] == 'decl' and it.get('term') == '' and (i != len(items) - 1 or not unterminated_ok):
            it = dict(it)
            it['term'] = ';'
        if it['t'] == 'decl' and not it['value'] and it.get('term') == '':
            it = dict(it)
            it['term'] = ';'
        out.append(it)
    out.append(wss[len(items) % len(wss)] if wss else {'t': 'ws', 's': ''})
    return out


def documents(allow_unterminated=False, max_leaves=18):
    leaf = decl_strategy(allow_unterminated)

    def rule(children):
        return st.builds(lambda sel, gap, items, wss: {'t': 'rule', 'sel': sel, 'gap': gap, 'items': interleave(items, wss, allow_unterminated)},
                         st.sampled_from(SELECTORS), st.sampled_from(['', ' ', ' ', '\n']), st.lists(children, max_size=4), st.lists(ws_strategy(), min_size=1, max_size=5))
    tree = st.recursive(leaf, rule, max_leaves=max_leaves)
    top = st.one_of(rule(tree), rule(tree), rule(tree), decl_strategy(False).filter(lambda d: d['name'] in ('$v', '--x', '@var')))
    return st.builds(lambda items, wss: interleave(items, wss, False), st.lists(top, min_size=1, max_size=4), st.lists(ws_strategy(), min_size=1, max_size=5))
