"""
G1 — markup abbreviation model: structured scripts, serializer, reference denotation, reference renderer.

script  := [item, op, item, op, ..., item]            op ∈ '>' '+' '^' '^^' '^^^'  ('>' never directly after a group)
item    := {'n': name-value, 'm': [mention...], 'x': text-value|None, 'r': None|int|'*', 'sc': bool}     element
         | {'g': script, 'r': None|int|'*'}                                                              group
value   := list of atoms:  str                      literal characters (source == meaning; the generator guarantees context-safety)
                           ['$', width, base|None, reverse]   counter
                           ['e', ch]                escape: source `\\ch`, meaning ch
                           ['b', value]             balanced braces inside text: source and meaning `{…}`
                           ['#']                    repeater placeholder `$#` (wrap text)
mention := ['#', value|None] | ['.', value|None] | ['a', name, form, value|None, joined]
           form ∈ none raw dq sq expr bool impl impl-bool impl-raw impl-dq impl-sq impl-expr
Everything is JSON; the serializer and the reference interpreter below are independent of the library.
"""
import itertools

INLINE = {'a', 'abbr', 'acronym', 'applet', 'b', 'basefont', 'bdo', 'big', 'br', 'button', 'cite', 'code', 'del', 'dfn', 'em', 'font', 'i',
          'iframe', 'img', 'input', 'ins', 'kbd', 'label', 'map', 'object', 'q', 's', 'samp', 'select', 'small', 'span', 'strike', 'strong',
          'sub', 'sup', 'textarea', 'tt', 'u', 'var'}
IMPLICIT = {'ul': 'li', 'ol': 'li', 'table': 'tr', 'tbody': 'tr', 'thead': 'tr', 'tfoot': 'tr', 'tr': 'td', 'select': 'option',
            'optgroup': 'option', 'p': 'span'}
BOOLEAN_ATTRS = {'contenteditable', 'seamless', 'async', 'autofocus', 'autoplay', 'checked', 'controls', 'defer', 'disabled', 'formnovalidate',
                 'hidden', 'ismap', 'loop', 'multiple', 'muted', 'novalidate', 'readonly', 'required', 'reversed', 'selected', 'typemustmatch'}


# ------------------------------------------------------------------------------------------- serializer
def ser_value(v):
    out = []
    for a in v or []:
        if isinstance(a, str):
            out.append(a)
        elif a[0] == '$':
            _, width, base, rev = a
            s = '$' * width
            if base is not None or rev:
                s += '@' + ('-' if rev else '') + (str(base) if base is not None else '')
            out.append(s)
        elif a[0] == 'e':
            out.append('\\' + a[1])
        elif a[0] == 'b':
            out.append('{' + ser_value(a[1]) + '}')
        elif a[0] == '#':
            out.append('$#')
        elif a[0] == 'f':
            out.append('${%d%s}' % (a[1], (':' + a[2]) if a[2] else ''))
        else:
            raise ValueError('bad atom %r' % (a,))
    return ''.join(out)


def ser_mentions(ms):
    out = []
    open_set = False
    for i, m in enumerate(ms):
        if m[0] in '#.':
            if open_set:
                out.append(']')
                open_set = False
            out.append(m[0] + ser_value(m[1]))
            continue
        _, name, form, val, joined = m
        if isinstance(name, list):      # attribute name with counter atoms (`[data-$=x]`)
            name = ser_value(name)
        if open_set and joined:
            out.append(' ')
        else:
            if open_set:
                out.append(']')
            out.append('[')
            open_set = True
        v = ser_value(val)
        if form == 'none':
            out.append(name)
        elif form == 'bool':
            out.append(name + '.')
        elif form == 'impl':
            out.append('!' + name)
        elif form == 'impl-bool':
            out.append('!' + name + '.')
        else:
            pre = '!' if form.startswith('impl-') else ''
            f = form[5:] if pre else form
            q = {'raw': ('', ''), 'dq': ('"', '"'), 'sq': ("'", "'"), 'expr': ('{', '}')}[f]
            out.append('%s%s=%s%s%s' % (pre, name, q[0], v, q[1]))
    if open_set:
        out.append(']')
    return ''.join(out)


def ser_rep(r):
    if r is None:
        return ''
    return '*' if r == '*' else '*%d' % r


def ser_item(it):
    if 'g' in it:
        return '(' + ser_script(it['g']) + ')' + ser_rep(it.get('r'))
    s = ser_value(it.get('n')) + ser_mentions(it.get('m') or [])
    if it.get('x') is not None:
        s += '{' + ser_value(it['x']) + '}'
    # the repeater may be written before or after the self-closing mark; 'rp' selects the position
    if it.get('sc'):
        s += ('/' + ser_rep(it.get('r'))) if it.get('rp') else (ser_rep(it.get('r')) + '/')
    else:
        s += ser_rep(it.get('r'))
    return s


def ser_script(sc):
    return ''.join(x if isinstance(x, str) else ser_item(x) for x in sc)


# ------------------------------------------------------------------------------------------- denotation
class MNode:
    __slots__ = ('item', 'children')

    def __init__(self, item):
        self.item = item
        self.children = []


def interpret(script, stats=None, in_group=False):
    "operator semantics exactly as stated: `>` descends, `+` stays, each `^` climbs one level and stops at the top of the (group-local) script"
    root = []
    ctx = root
    stack = []
    i = 0
    while i < len(script):
        it = script[i]
        node = MNode(it)
        if 'g' in it:
            node.children = interpret(it['g'], stats, True)
        ctx.append(node)
        if i + 1 < len(script):
            op = script[i + 1]
            if op == '>':
                stack.append(ctx)
                ctx = node.children
            elif op == '+':
                pass
            else:
                for _ in op:
                    if stack:
                        ctx = stack.pop()
                    elif stats is not None:
                        stats['climb-saturates-in-group' if in_group else 'climb-saturates-at-top'] = True
                if stats is not None and 'g' in it:
                    stats['climb-after-group'] = True
        i += 2
    return root


def den_value(v, ctr, text=None):
    "meaning of a value inside copy ctr=(i, N) of the nearest enclosing repeater (None: no repeater → 1)"
    if v is None:
        return None
    out = []
    for a in v:
        if isinstance(a, str):
            out.append(a)
        elif a[0] == '$':
            _, width, base, rev = a
            b = 1 if base is None else base
            if ctr is None:
                # no repeater: the counter reads as 1 (and the start value is not applied by the library either; only plain `$` is generated there)
                n = 1
            else:
                i, N = ctr
                n = b + (N - i - 1) if rev else b + i
            s = str(n)
            out.append('0' * max(0, width - len(s)) + s)
        elif a[0] == 'e':
            out.append(a[1])
        elif a[0] == 'b':
            out.append('{' + den_value(a[1], ctr, text) + '}')
        elif a[0] == '#':
            out.append(text if text is not None else '')
        elif a[0] == 'f':
            # explicit field ${n[:placeholder]}: kept as a private-use sentinel so that string-level merging still works; a renderer
            # turns it into the placeholder (default field callback) or into a numbered marker (C13)
            out.append('%s%d%s%s%s' % (F_OPEN, a[1], F_SEP, a[2] or '', F_CLOSE))
    return ''.join(out)


F_OPEN, F_SEP, F_CLOSE = '\ue000', '\ue001', '\ue002'


def strip_fields(s):
    "default field callback: a field prints its placeholder"
    import re as _re
    return _re.sub(F_OPEN + r'\d+' + F_SEP + '([^' + F_CLOSE + ']*)' + F_CLOSE, lambda m: m.group(1), s)


class ONode:
    __slots__ = ('name', 'attrs', 'text', 'children', 'sc', 'src')

    def __init__(self, name, attrs, text, sc, src=None):
        self.name, self.attrs, self.text, self.sc = name, attrs, text, sc
        self.children = []
        self.src = src


def den_mention(m, ctr, line=None):
    if m[0] == '#':
        return {'name': 'id', 'value': den_value(m[1], ctr, line), 'vt': 'raw', 'bool': False, 'impl': False}
    if m[0] == '.':
        return {'name': 'class', 'value': den_value(m[1], ctr, line), 'vt': 'raw', 'bool': False, 'impl': False}
    _, name, form, val, _j = m
    if isinstance(name, list):
        name = den_value(name, ctr, line)
    impl = form.startswith('impl')
    f = form[5:] if form.startswith('impl-') else form
    vt = {'none': 'raw', 'raw': 'raw', 'dq': 'dq', 'sq': 'sq', 'expr': 'expr', 'bool': 'raw', 'impl': 'raw'}[f if f != 'bool' or not impl else 'bool']
    has_val = f in ('raw', 'dq', 'sq', 'expr')
    return {'name': name, 'value': den_value(val or [], ctr, line) if has_val else None, 'vt': vt, 'bool': form in ('bool', 'impl-bool'), 'impl': impl}


class Budget:
    def __init__(self, m):
        self.left = m if m is not None else 10 ** 9


def has_placeholder(x):
    if isinstance(x, list):
        if len(x) == 1 and x[0] == '#':
            return True
        return any(has_placeholder(y) for y in x)
    if isinstance(x, dict):
        return any(has_placeholder(v) for v in x.values())
    return False


def _subtree_has_placeholder(m):
    return has_placeholder(m.item) or any(_subtree_has_placeholder(c) for c in m.children)


def deepest_last(node):
    while node.children:
        node = node.children[-1]
    return node


def unroll(mnodes, ctr=None, budget=None, lines=None, line=None):
    """expands repeaters into consecutive copies and substitutes counters. `budget`: maxRepeat simulation (each completed copy costs one;
    a repeater stops after the copy that exhausts the budget; a repeater met with an exhausted budget yields one copy).
    `lines`: the wrap-text lines an implicit repeater (`*`) iterates over (already cleaned: non-blank, trimmed); `line`: text of the
    enclosing implicit copy, substituted for `$#` placeholders."""
    budget = budget or Budget(None)
    out = []
    for m in mnodes:
        r = m.item.get('r')
        if r is not None:
            implicit = r == '*'
            n = (len(lines) if lines is not None else 1) if implicit else r
            ph = implicit and _subtree_has_placeholder(m)
            i = 0
            while i < n:
                cur = (lines[i] if (implicit and lines is not None) else line)
                copy = _unroll_one(m, (i, n), budget, lines, cur)
                if implicit and lines is not None and not ph and copy:
                    d = deepest_last(copy[-1])
                    d.text = (d.text or '') + lines[i]
                out += copy
                budget.left -= 1
                if budget.left <= 0:
                    break
                i += 1
        else:
            out += _unroll_one(m, ctr, budget, lines, line)
    return out


def _unroll_one(m, ctr, budget, lines, line):
    it = m.item
    if 'g' in it:
        return unroll(m.children, ctr, budget, lines, line)
    name = den_value(it.get('n'), ctr, line) or None
    attrs = [den_mention(x, ctr, line) for x in (it.get('m') or [])]
    text = den_value(it.get('x'), ctr, line) if it.get('x') is not None else None
    node = ONode(name, attrs, text, bool(it.get('sc')), it)
    node.children = unroll(m.children, ctr, budget, lines, line)
    return [node]


# ------------------------------------------------------------------------------------------- attribute model (C03)
def merge_attrs(attrs, reverse=False):
    """the statement's merge rules: order by first mention; class values joined by single spaces in written order; other names keep
    the first position and take the last value (first under reverse); boolean/implied flags are sticky"""
    order = []
    by = {}
    for a in attrs:
        n = a['name']
        if n not in by:
            by[n] = dict(a)
            order.append(n)
            continue
        d = by[n]
        if n == 'class':
            if d['value'] is not None and a['value'] is not None:
                d['value'] = (d['value'] + ' ' + a['value']) if d['value'] else a['value']
            elif d['value'] is None:
                d['value'] = a['value']
        else:
            if not reverse:
                d['value'] = a['value']
                if d['vt'] != 'expr':
                    d['vt'] = a['vt']
            d['bool'] = d['bool'] or a['bool']
            d['impl'] = d['impl'] or a['impl']
    return [by[n] for n in order]


def case(s, mode):
    if mode == 'upper':
        return s.upper()
    if mode == 'lower':
        return s.lower()
    return s


def render_attrs(attrs, o):
    out = []
    for a in merge_attrs(attrs, o.get('output.reverseAttributes', False)):
        val = a['value']
        if a['impl'] and a['vt'] == 'raw' and not val:
            continue
        name = (o.get('markup.attributes') or {}).get(a['name']) or a['name']
        name = case(name, o.get('output.attributeCase', ''))
        if a['vt'] == 'expr':
            lq, rq = '{', '}'
        else:
            lq = rq = "'" if o.get('output.attributeQuotes', 'double') == 'single' else '"'
        is_bool = a['bool'] or a['name'].lower() in o.get('output.booleanAttributes', BOOLEAN_ATTRS)
        if is_bool and not val:
            if not o.get('output.compactBoolean', False):
                out.append(' %s=%s%s%s' % (name, lq, name, rq))
            elif o.get('output.selfClosingStyle', 'html') != 'html':
                out.append(' %s=%s%s' % (name, lq, rq))
            else:
                out.append(' ' + name)
        else:
            out.append(' %s=%s%s%s' % (name, lq, val or '', rq))
    return ''.join(out)


# ------------------------------------------------------------------------------------------- renderer (output.format = False)
def render(nodes, o, parent_name=''):
    """reference output with formatting off: pure concatenation <name attrs>text children</name>"""
    out = []
    for n in nodes:
        if n.name is None and not n.attrs:
            # text-only item
            out.append(n.text or '')
            out.append(render(n.children, o, parent_name))
            continue
        name = n.name
        if name is None:
            p = (parent_name or '').lower()
            name = IMPLICIT.get(p, 'span' if p in o.get('inlineElements', INLINE) else 'div')
        tname = case(name, o.get('output.tagCase', ''))
        out.append('<' + tname + render_attrs(n.attrs, o))
        if n.sc and not n.children and not n.text:
            out.append({'html': '', 'xhtml': ' /', 'xml': '/'}[o.get('output.selfClosingStyle', 'html')] + '>')
        else:
            out.append('>' + (n.text or '') + render(n.children, o, name) + '</' + tname + '>')
    return ''.join(out)


def resolved_names(nodes, o, parent_name=''):
    "tree of (name, children) with implicit names resolved — for tree-shape comparisons"
    res = []
    for n in nodes:
        if n.name is None and not n.attrs:
            res.append(('#text', resolved_names(n.children, o, parent_name)))
            continue
        name = n.name
        if name is None:
            p = (parent_name or '').lower()
            name = IMPLICIT.get(p, 'span' if p in INLINE else 'div')
        res.append((name, resolved_names(n.children, o, name)))
    return res


# ------------------------------------------------------------------------------------------- exhaustive operator skeletons (C01)
OPS = ['>', '+', '^', '^^']
OPS_AFTER_GROUP = ['+', '^', '^^']


def skeletons(n, depth):
    "every script with exactly n elements, groups nested ≤ depth, each element/group optionally *2; names assigned later"
    def items_seq(n, depth):
        if n == 0:
            yield []
            return
        for rep in (None, 2):
            for rest in items_seq(n - 1, depth):
                yield [{'el': True, 'r': rep}] + rest
        if depth > 0:
            for k in range(1, n + 1):
                for sub in scripts(k, depth - 1):
                    for rep in (None, 2):
                        for rest in items_seq(n - k, depth):
                            yield [{'g': sub, 'r': rep}] + rest

    def scripts(n, depth):
        for items in items_seq(n, depth):
            if not items:
                continue
            choices = [OPS_AFTER_GROUP if 'g' in a else OPS for a in items[:-1]]
            for ops in itertools.product(*choices):
                sc = []
                for k, it in enumerate(items):
                    sc.append(it)
                    if k < len(ops):
                        sc.append(ops[k])
                yield sc
    return scripts(n, depth)


def name_skeleton(script, ctr=None):
    "assign pairwise distinct neutral names x1, x2, … in writing order"
    ctr = ctr if ctr is not None else [0]
    res = []
    for it in script:
        if isinstance(it, str):
            res.append(it)
        elif 'g' in it:
            res.append({'g': name_skeleton(it['g'], ctr), 'r': it['r']})
        else:
            ctr[0] += 1
            res.append({'n': ['x%d' % ctr[0]], 'm': [], 'x': None, 'r': it['r'], 'sc': False})
    return res


def script_stats(script, depth=0, st=None):
    st = st if st is not None else {'ops': 0, 'climb': 0, 'group': 0, 'repeat': 0, 'elements': 0, 'maxdepth': 0, 'nameless': 0, 'nested_rep': 0}
    for it in script:
        if isinstance(it, str):
            st['ops'] += 1
            if it[0] == '^':
                st['climb'] += 1
        elif 'g' in it:
            st['group'] += 1
            if it.get('r'):
                st['repeat'] += 1
            script_stats(it['g'], depth + 1, st)
        else:
            st['elements'] += 1
            if it.get('r'):
                st['repeat'] += 1
            if not it.get('n'):
                st['nameless'] += 1
    return st
