"G7 — reference tokenizer/parser/evaluator for math expressions (exact, fractions.Fraction)"
import re
from fractions import Fraction
from math import floor

# no leading `\s*`: only the blanks in WS separate tokens (a line break or form feed is not a "space" of the statement; the coverage-guided
# layer produced `\n1` and `1 \x0c2`, which an earlier version of this pattern read as valid expressions — a false alarm of the model)
_tok = re.compile(r'(?:(\d+\.\d+|\.\d+|\d+)|([-+*/\\()]))', re.ASCII)
WS = ' \t\xa0'


def tokenize(text):
    "list of tokens (numbers as str, operators as chars) or None when the text is not a token sequence"
    out = []
    i, n = 0, len(text)
    while i < n:
        ch = text[i]
        if ch in WS:
            i += 1
            continue
        m = _tok.match(text, i)
        if not m or m.start() != i or (m.group(0)[0] in WS):
            return None
        if m.group(1) is not None:
            # a number must not be glued to a dot/digit that is not part of it (e.g. `1.`, `1.2.3`)
            j = m.end()
            if j < n and text[j] == '.':
                return None
            out.append(('n', m.group(1)))
        else:
            out.append(('o', m.group(2)))
        i = m.end()
    return out


class Invalid(Exception):
    pass


class Excluded(Exception):
    "expression is outside the statement (mixes \\ with * or / in one unparenthesised chain)"


class Node:
    __slots__ = ('op', 'a', 'b', 'val')

    def __init__(self, op, a=None, b=None, val=None):
        self.op, self.a, self.b, self.val = op, a, b, val


def parse(tokens):
    "AST by the statement's rules; raises Invalid / Excluded"
    pos = [0]

    def peek():
        return tokens[pos[0]] if pos[0] < len(tokens) else (None, None)

    def expr():
        left = term()
        while peek() in (('o', '+'), ('o', '-')):
            op = tokens[pos[0]][1]
            pos[0] += 1
            right = term()
            left = Node(op, left, right)
        return left

    def term():
        left = unary()
        ops = set()
        while peek() in (('o', '*'), ('o', '/'), ('o', '\\')):
            op = tokens[pos[0]][1]
            pos[0] += 1
            ops.add(op)
            right = unary()
            left = Node(op, left, right)
        if '\\' in ops and len(ops) > 1:
            raise Excluded()
        return left

    def unary():
        neg = 0
        signs = 0
        while peek() in (('o', '+'), ('o', '-')):
            if tokens[pos[0]][1] == '-':
                neg += 1
            signs += 1
            pos[0] += 1
        p = primary()
        for _ in range(neg):
            p = Node('neg', p)
        return p

    def primary():
        k, v = peek()
        if k == 'n':
            pos[0] += 1
            return Node('num', val=Fraction(v))
        if (k, v) == ('o', '('):
            pos[0] += 1
            e = expr()
            if peek() != ('o', ')'):
                raise Invalid()
            pos[0] += 1
            return e
        raise Invalid()

    e = expr()
    if pos[0] != len(tokens):
        raise Invalid()
    return e


class Unstable(Exception):
    "float evaluation is not stable here: an integer division sits on a discontinuity of floor, or a divisor may be zero"


U = Fraction(1, 2 ** 52)      # unit round-off (generous)


def _rnd(v, e):
    "error after rounding the result to binary64: nothing is added when inputs were exact and the result is a representable integer"
    if e == 0 and v.denominator == 1 and abs(v) < 2 ** 53:
        return e
    return e + (abs(v) + e) * U


def _leaf(n):
    "value of a (possibly negated) number leaf, else None"
    if n.op == 'num':
        return n.val
    if n.op == 'neg':
        v = _leaf(n.a)
        return -v if v is not None else None
    return None


def evaluate(n):
    """(exact value, bound on the absolute error of a binary64 evaluation of the same tree in any grouping of
    adjacent * and /). Standard forward error analysis, done in exact arithmetic."""
    if n.op == 'num':
        v = n.val
        return v, _rnd(v, Fraction(0))
    if n.op == 'neg':
        v, e = evaluate(n.a)
        return -v, e
    a, ea = evaluate(n.a)
    b, eb = evaluate(n.b)
    if n.op in '+-':
        v = a + b if n.op == '+' else a - b
        return v, _rnd(v, ea + eb)
    if n.op == '*':
        v = a * b
        return v, _rnd(v, abs(a) * eb + abs(b) * ea + ea * eb)
    # division
    if abs(b) <= eb:
        if b == 0 and eb == 0:
            raise ZeroDivisionError()
        raise Unstable()
    q = a / b
    e = _rnd(q, (ea + abs(q) * eb) / (abs(b) - eb))
    if n.op == '/':
        return q, e
    e4 = 4 * e
    if floor(q - e4) != floor(q + e4):
        # on (or within the error bound of) a discontinuity of floor. When both operands are plain numbers the binary64 meaning of
        # `a \ b` = floor(a / b) is unambiguous (one correctly rounded division of two correctly rounded literals): follow it.
        la, lb = _leaf(n.a), _leaf(n.b)
        if la is not None and lb is not None:
            return Fraction(floor(float(la) / float(lb))), Fraction(0)
        raise Unstable()
    return Fraction(floor(q)), Fraction(0)


def reference(text):
    """('value', Fraction, errbound) | ('zero',) | ('invalid',) | ('excluded',) | ('unstable',)"""
    toks = tokenize(text)
    if toks is None or not toks:
        return ('invalid',)
    try:
        ast = parse(toks)
    except Invalid:
        return ('invalid',)
    except Excluded:
        return ('excluded',)
    except RecursionError:
        return ('invalid',)
    try:
        v, e = evaluate(ast)
    except ZeroDivisionError:
        return ('zero',)
    except Unstable:
        return ('unstable',)
    return ('value', v, e)
