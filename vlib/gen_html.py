"""
G3 — HTML/XML documents with ground truth. A document is JSON (list of nodes); `build()` writes the text and records, at the moment of
writing, the offsets of everything later asserted. The oracle is a lookup in that record, not a second parser.

node := {'t': 'text'|'comment'|'cdata'|'pi', 's': str}
      | {'t': 'el', 'kind': 'pair'|'void'|'self'|'special', 'name': str, 'attrs': [[ws, name, form, value]], 'ws': str, 'children': [node], 'body': str}
form ∈ none dq sq unq expr
"""
from hypothesis import strategies as st

VOID = ['br', 'img', 'input', 'hr', 'meta', 'link']
NAMES = ['div', 'p', 'a', 'ul', 'li', 'x-y', 'ns:t', 'span', 'section', 'b', 'Comp', 'é1']
ATTR_NAMES = ['id', 'class', 'title', 'data-x', 'href', 'disabled', ':bind', '*ngIf', '#ref', '[prop]', '(click)', 'v-on:x.y', 'xml:lang', '_a']
SPECIAL_TYPES = [None, '', 'text/javascript', 'javascript']


class El:
    __slots__ = ('name', 'kind', 'open', 'close', 'attrs', 'children', 'parent', 'depth', 'name_range')

    def __init__(self):
        self.children = []
        self.attrs = []
        self.close = None

    @property
    def start(self):
        return self.open[0]

    @property
    def end(self):
        return self.close[1] if self.close else self.open[1]


def build(doc, xml=False):
    "→ (source, elements in document order, noise ranges)"
    out = []
    n = [0]
    els = []
    noise = []

    def w(s):
        out.append(s)
        n[0] += len(s)

    def attrs(el, spec):
        for ws, name, form, value in spec:
            w(ws or ' ')
            ns = n[0]
            w(name)
            ne = n[0]
            if form == 'none':
                el.attrs.append((name, ns, ne, None, None, None))
                continue
            w('=')
            if form == 'dq':
                v = '"' + value + '"'
            elif form == 'sq':
                v = "'" + value + "'"
            elif form == 'expr':
                v = '{' + value + '}'
            else:
                v = value
            vs = n[0]
            w(v)
            el.attrs.append((name, ns, ne, v, vs, n[0]))

    def node(d, parent, depth):
        t = d['t']
        if t == 'text':
            w(d['s'])
            return
        if t in ('comment', 'cdata', 'pi'):
            s = n[0]
            w({'comment': '<!--%s-->', 'cdata': '<![CDATA[%s]]>', 'pi': '<?%s?>'}[t] % d['s'])
            noise.append((t, s, n[0]))
            return
        el = El()
        el.name = d['name']
        el.kind = d['kind']
        el.parent = parent
        el.depth = depth
        s = n[0]
        w('<' + el.name)
        el.name_range = (s + 1, n[0])
        attrs(el, d.get('attrs') or [])
        kind = d['kind']
        if kind == 'self':
            w((d.get('ws') or '') + '/>')
        else:
            w((d.get('ws') or '') + '>')
        el.open = (s, n[0])
        els.append(el)
        if parent is not None:
            parent.children.append(el)
        if kind == 'special':
            b = n[0]
            w(d.get('body') or '')
            noise.append(('special-body', b, n[0]))
            c = n[0]
            w('</' + el.name + '>')
            el.close = (c, n[0])
        elif kind == 'pair' or (kind == 'void' and xml):
            for ch in d.get('children') or []:
                node(ch, el, depth + 1)
            c = n[0]
            w('</' + el.name + '>')
            el.close = (c, n[0])
            if kind == 'void':
                el.kind = 'pair'
    roots = []
    for d in doc:
        node(d, None, 0)
    return ''.join(out), els, noise


# ------------------------------------------------------------------------------------------- strategies
def attr_strategy():
    ws = st.sampled_from([' ', ' ', '  ', '\n', '\t '])
    name = st.one_of(st.sampled_from(ATTR_NAMES), st.builds(lambda a, i: a + str(i), st.sampled_from(['id', 'data-x', 'title']), st.integers(0, 9)))
    dq = st.sampled_from(['', 'a b', 'x>y', "it's", 'a  b c', '</p>', '<b>', 'a/>', ' lead', 'tail ', '{x}', 'a=b', '<!-- c -->'])
    sq = st.sampled_from(['', 'a b', 'x>y', 'say "hi"', '<i>', '/>', 'a  b'])
    unq = st.sampled_from(['a', 'foo', '12', 'a.b', '#x', 'a=b', 'x{y}', 'é', '/x', 'a/b', 'http://x.y/z', 'text/css'])
    ex = st.sampled_from(['a', 'a>b', '{x}', '"}"', 'f(1)', "'}'", 'a < b', '() => <b/>'.replace('<b/>', 'b')])
    return st.one_of(
        st.tuples(ws, name, st.just('none'), st.none()),
        st.tuples(ws, name, st.just('dq'), dq), st.tuples(ws, name, st.just('dq'), dq),
        st.tuples(ws, name, st.just('sq'), sq),
        st.tuples(ws, name, st.just('unq'), unq),
        st.tuples(ws, name, st.just('expr'), ex),
        st.tuples(ws, st.just('class'), st.sampled_from(['dq', 'sq']), st.sampled_from(['a', 'a b', ' a  bb\tc ', '', '  ', 'x-1 y_2', 'a\tb', 'p q\n r\ts', '\ta'])),
        st.tuples(ws, st.just('class'), st.just('unq'), st.sampled_from(['a', 'a-b'])),
        st.tuples(ws, st.just('{...props}'), st.just('none'), st.none()),
    ).map(list)


def unique_attrs(lst):
    seen = set()
    out = []
    for a in lst:
        if a[1] in seen:
            continue
        seen.add(a[1])
        out.append(a)
    return out


def documents(xml=False, max_leaves=25):
    text = st.sampled_from(['text', ' ', '\n', 'a > b', 'x', '\n  ', 'a &amp; b', '1 < 2'.replace('<', 'lt')]).map(lambda s: {'t': 'text', 's': s})
    comment = st.sampled_from([' c ', '<div>', '</p>', '<br>', '-- >', '<a href="x">', '']).map(lambda s: {'t': 'comment', 's': s})
    cdata = st.sampled_from(['<div>', ']]', '</a>', 'x', '<!-- -->']).map(lambda s: {'t': 'cdata', 's': s})
    pi = st.sampled_from(['xml v="1"', 'php echo "<p>" ', 'php echo "?>" ', "x '?>' <a>"]).map(lambda s: {'t': 'pi', 's': s})
    attrs = st.lists(attr_strategy(), max_size=4).map(unique_attrs)
    tws = st.sampled_from(['', '', ' ', '\n'])
    void = st.builds(lambda nm, a, ws: {'t': 'el', 'kind': 'void', 'name': nm, 'attrs': a, 'ws': ws, 'children': []}, st.sampled_from(VOID), attrs, tws)
    selfc = st.builds(lambda nm, a, ws: {'t': 'el', 'kind': 'self', 'name': nm, 'attrs': a, 'ws': ws}, st.sampled_from(NAMES + VOID), attrs, st.sampled_from(['', ' ']))
    leaves = [text, text, comment, void, selfc, selfc]
    if True:
        body = st.sampled_from(['', 'var a = "<div>";', 'if (a</b>) {}', '<p>', 'x<y', '<!-- </x> -->', 'a{b:c}', '</scrip>', '</ script>',
                                 'ok = 1 <', 'var s = "<" + "</', '/* <b> </', '<', '</', '</scrip', 'a</sty'])
        def special(nm, typ, a, b, form, last):
            at = [x for x in a if x[1] != 'type']
            if nm == 'script' and typ is not None:
                # the type in double quotes, single quotes or unquoted, first or last among the attributes
                f = 'dq' if (form == 'raw' and not typ) else form
                at = (at + [[' ', 'type', f, typ]]) if last else ([[' ', 'type', f, typ]] + at)
            return {'t': 'el', 'kind': 'special', 'name': nm, 'attrs': at, 'ws': '', 'body': b}
        leaves.append(st.builds(special, st.sampled_from(['script', 'style']), st.sampled_from(SPECIAL_TYPES), attrs, body,
                                st.sampled_from(['dq', 'dq', 'sq', 'sq', 'raw']), st.booleans()))
    leaves += [cdata, pi]
    leaf = st.one_of(*leaves)

    def pair(children):
        names = st.sampled_from(NAMES)
        p = st.builds(lambda nm, a, ws, ch: {'t': 'el', 'kind': 'pair', 'name': nm, 'attrs': a, 'ws': ws, 'children': ch}, names, attrs, tws, st.lists(children, max_size=4))
        # a script element whose type is not special: its body *is* scanned as markup
        if not xml:
            ps = st.builds(lambda a, ch: {'t': 'el', 'kind': 'pair', 'name': 'script', 'attrs': [[' ', 'type', 'dq', 'text/x-template']] + [x for x in a if x[1] != 'type'], 'ws': '', 'children': ch},
                           attrs, st.lists(children, max_size=3))
            return st.one_of(p, p, p, p, ps)
        if xml:
            pv = st.builds(lambda nm, a, ch: {'t': 'el', 'kind': 'void', 'name': nm, 'attrs': a, 'ws': '', 'children': ch}, st.sampled_from(VOID), attrs, st.lists(children, max_size=2))
            return st.one_of(p, p, p, pv)
        return p
    tree = st.recursive(leaf, pair, max_leaves=max_leaves)
    return st.lists(tree, min_size=1, max_size=3)


def merge_text(doc):
    "adjacent text nodes are fine; nothing to normalise — kept for symmetry with gen_css"
    return doc
