"""
G5 — stylesheet abbreviation model: value sequences as data, serializer by the documented separator rule, reference CSS text.

prop  := {'key': snippet key, 'vals': [value...], 'imp': bool, 'colon': bool}
value := {'k': 'num', 'neg': bool, 'w': written magnitude ('10', '.5', '1.', '1.25', '007'), 'u': unit as written ('' | alias | explicit)}
       | {'k': 'col', 'hex': '0'..'ffffff' (1, 2, 3 or 6 hex digits, any case) | 't', 'alpha': None | '.' | '.N'}
"""
import re
from decimal import Decimal
from fractions import Fraction

DEFAULTS = {
    'stylesheet.unitless': ['z-index', 'line-height', 'opacity', 'font-weight', 'zoom', 'flex', 'flex-grow', 'flex-shrink'],
    'stylesheet.shortHex': True, 'stylesheet.between': ': ', 'stylesheet.after': ';', 'stylesheet.intUnit': 'px', 'stylesheet.floatUnit': 'em',
    'stylesheet.unitAliases': {'e': 'em', 'p': '%', 'x': 'ex', 'r': 'rem'}, 'output.format': True, 'output.newline': '\n',
}
SYNTAX = {'sass': {'stylesheet.after': ''}, 'stylus': {'stylesheet.between': ' ', 'stylesheet.after': ''}}


def options(cfg):
    o = dict(DEFAULTS)
    o.update(SYNTAX.get(cfg.get('syntax', 'css'), {}))
    o.update(cfg.get('options') or {})
    return o


def table_properties():
    "key → property name, read from the text of the shipped snippet table (`key: 'property:values'`)"
    from emmet.snippets.css import snippets as raw
    out = {}
    for k, v in raw.items():
        m = re.match(r'^([a-z-]+)(?:\s*:|$)', v)
        if m:
            for name in k.split('|'):
                out[name] = m.group(1)
    return out


def ser_value(v):
    if v['k'] == 'num':
        return ('-' if v['neg'] else '') + v['w'] + v['u']
    return '#' + v['hex'] + (v['alpha'] or '')


def kind_after(v):
    if v['k'] == 'col':
        return 'col'
    return 'unit' if v['u'] else 'unitless'


def ser_prop(p):
    s = p['key']
    prev = None
    for i, v in enumerate(p['vals']):
        if prev is None:
            sep = ':' if (p.get('colon') and not (v['k'] == 'num' and v['neg'])) else ''
        elif prev in ('unitless', 'col'):
            sep = '-'            # documented: after a unit-less number or a colour a dash separates values
        else:
            sep = ''             # after an explicit unit the next value follows directly (a dash there would be a minus sign)
        s += sep + ser_value(v)
        prev = kind_after(v)
    if p.get('imp'):
        s += '!'
    return s


def ser(props):
    return '+'.join(ser_prop(p) for p in props)


def num_text(v, prop_name, o):
    d = Decimal(v['w'] if not v['w'].endswith('.') else v['w'] + '0')
    if v['w'].startswith('.'):
        d = Decimal('0' + v['w'])
    if v['neg']:
        d = -d
    # minimal decimal text of the written value
    t = format(d.normalize(), 'f') if d != 0 else '0'
    if '.' in t:
        t = t.rstrip('0').rstrip('.')
    if v['u']:
        unit = o['stylesheet.unitAliases'].get(v['u'], v['u'])
    elif d == 0 or prop_name in o['stylesheet.unitless']:
        unit = ''
    else:
        unit = o['stylesheet.floatUnit'] if '.' in v['w'] else o['stylesheet.intUnit']
    return t + unit


def col_value(v):
    "(r, g, b, a) the written form denotes; a as Fraction"
    h = v['hex']
    if h == 't':
        return (0, 0, 0, Fraction(0))
    h = h.lower()
    if len(h) == 1:
        r = g = b = int(h * 2, 16)
    elif len(h) == 2:
        r = g = b = int(h, 16)
    elif len(h) == 3:
        r, g, b = (int(c * 2, 16) for c in h)
    elif len(h) == 6:
        r, g, b = int(h[0:2], 16), int(h[2:4], 16), int(h[4:6], 16)
    else:
        raise ValueError('undocumented hex length')
    a = v.get('alpha')
    if a is None or a == '.':
        alpha = Fraction(1)
    else:
        alpha = Fraction('0' + a)
    return (r, g, b, alpha)


_rgba = re.compile(r'^rgba?\((\d+), (\d+), (\d+)(?:, ([0-9.]+))?\)$')


def parse_printed_color(tok):
    "printed CSS colour token → (r, g, b, a) or None"
    if tok == 'transparent':
        return (0, 0, 0, Fraction(0))
    m = re.match(r'^#([0-9a-f]{3})$', tok)
    if m:
        return tuple(int(c * 2, 16) for c in m.group(1)) + (Fraction(1),)
    m = re.match(r'^#([0-9a-f]{6})$', tok)
    if m:
        h = m.group(1)
        return (int(h[0:2], 16), int(h[2:4], 16), int(h[4:6], 16), Fraction(1))
    m = _rgba.match(tok)
    if m:
        a = Fraction(m.group(4)) if m.group(4) is not None else Fraction(1)
        return (int(m.group(1)), int(m.group(2)), int(m.group(3)), a)
    return None


def col_text(v, o):
    "the documented printed form"
    r, g, b, a = col_value(v)
    if (r, g, b, a) == (0, 0, 0, 0):
        return 'transparent'
    if a == 1:
        if o['stylesheet.shortHex'] and all(c % 17 == 0 for c in (r, g, b)):
            return '#%x%x%x' % (r >> 4, g >> 4, b >> 4)
        return '#%02x%02x%02x' % (r, g, b)
    t = format(Decimal(a.numerator) / Decimal(a.denominator), 'f')
    if '.' in t:
        t = t.rstrip('0').rstrip('.')
    return 'rgba(%d, %d, %d, %s)' % (r, g, b, t)


def ref_prop(p, prop_name, o):
    toks = [num_text(v, prop_name, o) if v['k'] == 'num' else col_text(v, o) for v in p['vals']]
    return prop_name + o['stylesheet.between'] + ' '.join(toks) + (' !important' if p.get('imp') else '') + o['stylesheet.after']


def ref(props, table, cfg):
    o = options(cfg)
    lines = [ref_prop(p, table[p['key']], o) for p in props]
    return (o['output.newline'] if o['output.format'] else '').join(lines)
