"""
Sensitivity self-test: for each diff in selftest/<ID>/*.diff (and seeded/<ID>*/patch.diff that names the
property), copy /repo to a scratch directory outside /repo and /verif, apply the diff, run the quick check
with VERIF_REPO pointing at the copy, and require exit 1 with a VIOLATION line. The copy is removed afterwards.

usage: run.py --selftest <ID|all> [substring-of-mutant-name] [--tests]
  --tests   additionally run the repository's own test suite on the mutated copy and report pass/fail
"""
import os, sys, glob, json, shutil, subprocess, tempfile

VERIF = os.path.dirname(os.path.dirname(os.path.abspath(__file__)))
REPO = '/repo'


def mutants_for(prop_id):
    out = []
    for p in sorted(glob.glob(os.path.join(VERIF, 'selftest', prop_id, '*.diff'))):
        out.append((os.path.basename(p)[:-5], p))
    for meta in sorted(glob.glob(os.path.join(VERIF, 'seeded', '*', 'meta.json'))):
        try:
            m = json.load(open(meta))
        except Exception:
            continue
        props = m.get('property') if isinstance(m.get('property'), list) else [m.get('property')]
        if prop_id in props:
            d = os.path.dirname(meta)
            out.append(('seeded/' + os.path.basename(d), os.path.join(d, 'patch.diff')))
    return out


def run_one(prop_id, name, diff, with_tests=False, tier='quick'):
    tmp = tempfile.mkdtemp(prefix='vsel-', dir=os.environ.get('VERIF_SCRATCH', '/tmp'))
    try:
        dst = os.path.join(tmp, 'repo')
        shutil.copytree(REPO, dst, ignore=shutil.ignore_patterns('.git', '__pycache__', '*.pyc', '.pytest_cache'))
        r = subprocess.run(['patch', '-p1', '-s', '--no-backup-if-mismatch', '-i', diff], cwd=dst,
                           capture_output=True, text=True)
        if r.returncode != 0:
            return 'APPLY-FAILED', r.stdout + r.stderr
        tests = ''
        if with_tests:
            t = subprocess.run(['/venv/bin/python', '-m', 'pytest', '-q', '-x', '-p', 'no:cacheprovider'], cwd=dst,
                               capture_output=True, text=True,
                               env=dict(os.environ, PYTHONDONTWRITEBYTECODE='1'))
            tests = ' tests=' + ('pass' if t.returncode == 0 else 'FAIL')
        env = dict(os.environ, VERIF_REPO=dst, VERIF_MAX_BUCKETS='2')
        import signal
        proc = subprocess.Popen([os.path.join(VERIF, 'check'), prop_id, tier], cwd=VERIF, env=env, stdout=subprocess.PIPE, stderr=subprocess.PIPE,
                                text=True, start_new_session=True)
        try:
            out, err = proc.communicate(timeout=int(os.environ.get('VERIF_SELFTEST_TIMEOUT', '900')))
        except subprocess.TimeoutExpired:
            os.killpg(proc.pid, signal.SIGKILL)
            proc.communicate()
            return 'TIMEOUT' + tests, 'check did not finish within the self-test time limit'

        class R:
            pass
        c = R()
        c.returncode, c.stdout, c.stderr = proc.returncode, out, err
        viol = [l for l in c.stdout.splitlines() if l.startswith('VIOLATION ')]
        if c.returncode == 1 and viol:
            b = [l.strip() for l in c.stdout.splitlines() if l.strip().startswith('bucket=')]
            return 'CAUGHT' + tests, (b[0] if b else viol[0])
        if c.returncode == 0:
            return 'MISSED' + tests, c.stdout.strip().splitlines()[-1] if c.stdout.strip() else ''
        return 'HARNESS-ERROR rc=%d%s' % (c.returncode, tests), (c.stdout + c.stderr)[-1500:]
    finally:
        shutil.rmtree(tmp, ignore_errors=True)


def main(argv):
    with_tests = '--tests' in argv
    tier = 'thorough' if '--thorough' in argv else 'quick'
    argv = [a for a in argv if not a.startswith('--')]
    ids = [argv[0].upper()]
    if ids == ['ALL']:
        ids = sorted({os.path.basename(d) for d in glob.glob(os.path.join(VERIF, 'selftest', 'C*'))})
    sub = argv[1] if len(argv) > 1 else ''
    # evidence files must not be clobbered by self-test runs: keep and restore them
    bad = 0
    for pid in ids:
        ev = os.path.join(VERIF, 'evidence', pid + '.json')
        keep = open(ev, 'rb').read() if os.path.exists(ev) else None
        try:
            for name, diff in mutants_for(pid):
                if sub and sub not in name:
                    continue
                verdict, info = run_one(pid, name, diff, with_tests, tier)
                print('%s %-40s %s   %s' % (pid, name, verdict, info if len(info) < 300 else info[:300]))
                sys.stdout.flush()
                if not verdict.startswith('CAUGHT'):
                    bad += 1
        finally:
            if keep is not None:
                open(ev, 'wb').write(keep)
    return 1 if bad else 0
