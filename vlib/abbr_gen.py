"Hypothesis strategies producing G1 scripts (see abbr_model.py). All choices are drawn inside Hypothesis."
from hypothesis import strategies as st
from . import abbr_model as M

NEUTRAL = ['x1', 'x2', 'x3', 'x4', 'x5', 'sec', 'h1', 'x-y', 'ns:el', 'main', 'nav']
STRUCT = ['ul', 'ol', 'table', 'tbody', 'thead', 'tfoot', 'tr', 'select', 'optgroup', 'p', 'em', 'span', 'b', 'strong', 'div', 'section', 'i', 'u']
NEUTRALISE = {'select': 'select'}     # built-in alias `select` → select[name id]; neutralised so structure oracles stay exact

SAFE_UNQUOTED = list('abcxyzABC0123456789_-.:/#%@!?,;&~|^+*>')
SAFE_QUOTED = SAFE_UNQUOTED + list(' []()={}<') + ['é', '☃']
TEXT_PLAIN = list('abcxyzABC0123 _-.:/#%@!?,;&~|^+*>()[]=\'"') + ['é', '☃']


class P:
    "generation parameters"
    def __init__(self, **kw):
        self.names = NEUTRAL + STRUCT
        self.nameless = 0.2          # probability of a nameless element (needs ≥ 1 mention)
        self.mentions = 'simple'     # 'none' | 'simple' | 'full'
        self.text = 0.15
        self.text_kind = 'simple'    # 'simple' | 'full'
        self.text_only = 0.05        # text-only items `{…}`
        self.groups = 0.15
        self.max_items = 8
        self.max_depth = 3           # group nesting
        self.rep = 0.25
        self.rep_max = 5
        self.sc = 0.05
        self.counters = False
        self.counter_forms = 'all'
        self.implicit_rep = False
        self.max_nodes = 400
        self.__dict__.update(kw)


def counter_atom(p):
    if p.counter_forms == 'plain':
        return st.builds(lambda w: ['$', w, None, False], st.integers(1, 4))
    if p.counter_forms == 'fwd':
        return st.builds(lambda w, b: ['$', w, b, False], st.integers(1, 4), st.one_of(st.none(), st.integers(0, 20)))
    return st.builds(lambda w, b, r: ['$', w, b, r], st.integers(1, 4), st.one_of(st.none(), st.integers(0, 20)), st.booleans())


def simple_value(p, alphabet='abcxyz', maxlen=3, first=None):
    base = st.text(alphabet=alphabet, min_size=1, max_size=maxlen)
    if not p.counters:
        return base.map(lambda s: [s])
    return st.lists(st.one_of(base, base, counter_atom(p)), min_size=1, max_size=3).map(_fix_value)


def _fix_value(v):
    """keeps the written form unambiguous: adjacent literals merge, two counters are separated by `_`, and a literal that starts with a
    digit, `@`, `^`, `-` or `$` never directly follows a counter (it would be read as part of the numbering token)"""
    out = []
    for a in v:
        prev = out[-1] if out else None
        if isinstance(a, str):
            if isinstance(prev, str):
                out[-1] += a
            elif prev is not None and prev[0] == '$' and (a[0].isdigit() or a[0] in '@^-$#'):
                out.append('_' + a)
            else:
                out.append(a)
        else:
            if prev is not None and not isinstance(prev, str) and prev[0] in '$#' and a[0] in '$#b':
                # `$$`, `$#`, `$#$`, `${` would be read as one token / a field
                out.append('_')
            out.append(a)
    return out


def mention(p):
    if p.mentions == 'simple':
        return st.one_of(
            st.builds(lambda v: ['.', v], simple_value(p)),
            st.builds(lambda v: ['#', v], simple_value(p)),
            st.builds(lambda n, v: ['a', n, 'raw', v, False], st.sampled_from(['t', 'data-a', 'title']), simple_value(p, 'abc123', 3)),
            st.builds(lambda n, f, v: ['a', n, f, v, False], st.sampled_from(['u', 'data-b']), st.sampled_from(['dq', 'sq']), simple_value(p, 'abc12 ', 3)),
        )
    if p.mentions == 'full':
        return full_mention(p)
    if p.mentions == 'paren':
        pv = st.text(alphabet=list('ab1()'), min_size=1, max_size=4)
        def bal(s):
            # unquoted values must keep brackets balanced (the attribute parser counts them); quoted ones need not
            d = 0
            out = []
            for c in s:
                if c == ')':
                    if d == 0:
                        continue
                    d -= 1
                elif c == '(':
                    d += 1
                out.append(c)
            return ''.join(out) + ')' * d or 'a'
        return st.one_of(
            st.builds(lambda v: ['.', v], simple_value(p)),
            st.builds(lambda v: ['a', 'title', 'raw', [bal(v)], False], pv),
            st.builds(lambda v, f: ['a', 'data-a', f, [v], False], st.text(alphabet=list('ab ()[]{}*>+^!'), min_size=0, max_size=5), st.sampled_from(['dq', 'sq'])),
        )
    raise ValueError(p.mentions)


ATTR_NAMES = ['class', 'id', 'disabled', 'for', 't', 'title']


def full_mention(p):
    ident = simple_value(p, 'abcXY12-_', 4)
    unq = st.text(alphabet=SAFE_UNQUOTED, min_size=1, max_size=5).map(lambda s: [s])
    dq = st.text(alphabet=[c for c in SAFE_QUOTED if c != '"'] + ["'"], max_size=6).map(lambda s: [s] if s else [])
    sq = st.text(alphabet=[c for c in SAFE_QUOTED if c != "'"] + ['"'], max_size=6).map(lambda s: [s] if s else [])
    ex = st.text(alphabet=list('abc .()=>12'), min_size=1, max_size=6).map(lambda s: [s])
    name = st.sampled_from(ATTR_NAMES)
    joined = st.booleans()
    return st.one_of(
        st.builds(lambda v: ['.', v], ident), st.builds(lambda v: ['.', v], ident),
        st.builds(lambda v: ['#', v], ident),
        st.builds(lambda n, j: ['a', n, 'none', None, j], name, joined),
        st.builds(lambda n, v, j: ['a', n, 'raw', v, j], name, unq, joined),
        # unquoted values with parentheses, balanced or left open (brackets are counted per kind: the set's `]` still ends the value)
        st.builds(lambda n, v, j: ['a', n, 'raw', [v], j], name, st.sampled_from(['(b', 'f(x', 'x(', '((a', 'a(b)c(', 'f(x)', '(a)(b)']), joined),
        st.builds(lambda n, v, j: ['a', n, 'dq', v, j], name, dq, joined),
        st.builds(lambda n, v, j: ['a', n, 'sq', v, j], name, sq, joined),
        st.builds(lambda n, v, j: ['a', n, 'expr', v, j], st.sampled_from(['t', 'title', 'for']), ex, joined),
        st.builds(lambda n, j: ['a', n, 'bool', None, j], name, joined),
        st.builds(lambda n, j: ['a', n, 'impl', None, j], name, joined),
        st.builds(lambda n, j: ['a', n, 'impl-bool', None, j], name, joined),
        st.builds(lambda n, f, v, j: ['a', n, f, v, j], name, st.sampled_from(['impl-raw', 'impl-dq']), st.text(alphabet='abc12', min_size=1, max_size=3).map(lambda s: [s]), joined),
    )


def fix_mentions(ms):
    "the statement does not define mixing expression and non-expression values of one name: make such names all-quoted"
    by = {}
    for m in ms:
        if m[0] == 'a':
            by.setdefault(m[1], []).append(m)
    for n, lst in by.items():
        forms = {m[2] for m in lst}
        if 'expr' in forms and len(forms) > 1:
            for m in lst:
                if m[2] == 'expr':
                    m[2] = 'dq'
                    m[3] = [x.replace('"', '') if isinstance(x, str) else x for x in (m[3] or [])]
    return ms


ESCAPABLE = list('$\\{}*>+^()[]\'"=/!@#.:- aZ1') + ['é']


def text_value(p):
    if p.text_kind == 'simple':
        return simple_value(p, 'abcT', 3)
    if p.text_kind == 'full':
        plain = st.text(alphabet=TEXT_PLAIN, min_size=1, max_size=5)
        esc = st.sampled_from(ESCAPABLE).map(lambda c: ['e', c])
        atoms = [plain, plain, plain, esc]
        if p.counters:
            atoms.append(counter_atom(p))
        if getattr(p, 'placeholders', False):
            atoms.append(st.just(['#']))
        leaf = st.lists(st.one_of(*atoms), min_size=0, max_size=4)
        nested = st.lists(st.one_of(*(atoms + [leaf.map(lambda v: ['b', _fix_value(v)])])), min_size=0, max_size=5)
        deep = st.lists(st.one_of(*(atoms + [nested.map(lambda v: ['b', _fix_value(v)])])), min_size=0, max_size=5)
        return deep.map(_fix_value)
    raise ValueError(p.text_kind)


@st.composite
def element(draw, p):
    nameless = draw(st.floats(0, 1)) < p.nameless and p.mentions != 'none'
    it = {'n': None if nameless else _name(draw, p), 'm': [], 'x': None, 'r': None, 'sc': False}
    if p.mentions != 'none':
        k = draw(st.integers(1, 2)) if nameless else draw(st.sampled_from([0, 0, 0, 1, 2]))
        if p.mentions == 'full':
            k = draw(st.integers(1 if nameless else 0, 6))
        it['m'] = fix_mentions([draw(mention(p)) for _ in range(k)])
    if draw(st.floats(0, 1)) < p.text:
        it['x'] = draw(text_value(p))
    if draw(st.floats(0, 1)) < p.rep:
        it['r'] = draw(st.integers(1, p.rep_max))
    _avoid_placeholder(it)
    if it['x'] is None and draw(st.floats(0, 1)) < p.sc:
        it['sc'] = True
        it['rp'] = draw(st.booleans())
    return it


def _ends_plain_counter(v):
    return bool(v) and not isinstance(v[-1], str) and v[-1][0] == '$' and v[-1][2] is None and not v[-1][3]


def _avoid_placeholder(it):
    "a value ending in a plain `$` run must not be followed by `#` (that would spell the `$#` placeholder): append a literal"
    seq = [it['n']] + [m[1] for m in it['m'] if m[0] in '#.']
    order = [('n', None)] + [(i, m) for i, m in enumerate(it['m'])]
    prev = it['n']
    for m in it['m']:
        if m[0] == '#' and _ends_plain_counter(prev):
            prev.append('z')
        prev = m[1] if m[0] in '#.' else None


def _name(draw, p):
    n = draw(st.sampled_from(p.names))
    if p.counters and draw(st.floats(0, 1)) < 0.15:
        return [n, draw(counter_atom(P(counter_forms='plain')))]
    return [n]


@st.composite
def script(draw, p, depth=0):
    n = draw(st.integers(1, p.max_items if depth == 0 else max(1, p.max_items // 2)))
    sc = []
    for k in range(n):
        r = draw(st.floats(0, 1))
        if depth < p.max_depth and r < p.groups:
            it = {'g': draw(script(p, depth + 1)), 'r': draw(st.integers(1, p.rep_max)) if draw(st.floats(0, 1)) < p.rep else None}
        elif r > 1 - p.text_only:
            it = {'n': None, 'm': [], 'x': draw(text_value(p)), 'r': None, 'sc': False}
            if getattr(p, 'text_only_fields', 0) and draw(st.floats(0, 1)) < p.text_only_fields:
                # a text-only item whose text carries a field keeps its children (they are printed in place of the first field)
                it['x'] = [draw(st.sampled_from(['pre', 'a b', '[', '(x'])), ['f', draw(st.integers(0, 2)), None]]
                # optionally a second field with a visible placeholder, directly after the first one or after some text
                second = draw(st.sampled_from([None, None, 'adjacent', 'apart']))
                if second == 'apart':
                    it['x'].append(' mid ')
                if second:
                    it['x'].append(['f', draw(st.integers(0, 3)), draw(st.sampled_from(['foo', 'rest']))])
                it['x'].append(draw(st.sampled_from(['post', ']', ' y)'])))
                it['kids'] = True
        else:
            it = draw(element(p))
        sc.append(it)
        if k < n - 1:
            ops = ['+', '+', '^', '^^', '^^^']
            if 'g' not in it and (it['n'] or it['m']) and not it['sc']:
                ops += ['>', '>', '>', '>']
            elif 'g' not in it and it.get('kids'):
                ops += ['>', '>', '>']
            elif 'g' not in it and it['sc'] and getattr(p, 'child_after_sc', True):
                # `br/>b`: the element after `>` still nests inside the one before it (the self-closing mark then has no effect)
                ops += ['>']
            sc.append(draw(st.sampled_from(ops)))
    return sc


def bounded(sc, p):
    "map (not filter): keep the unrolled size below p.max_nodes by lowering repeat counts"
    for _ in range(6):
        if count_nodes(sc) <= p.max_nodes:
            return sc
        sc = _lower(sc)
    return sc


def count_nodes(sc):
    tree = M.interpret(sc)

    def cnt(nodes):
        t = 0
        for m in nodes:
            r = m.item.get('r')
            r = r if isinstance(r, int) else 1
            own = 0 if 'g' in m.item else 1
            t += r * (own + cnt(m.children))
        return t
    return cnt(tree)


def _lower(sc):
    out = []
    for it in sc:
        if isinstance(it, str):
            out.append(it)
        elif 'g' in it:
            out.append({'g': _lower(it['g']), 'r': (max(1, it['r'] // 2) if isinstance(it['r'], int) else it['r'])})
        else:
            d = dict(it)
            if isinstance(d.get('r'), int):
                d['r'] = max(1, d['r'] // 2)
            out.append(d)
    return out


def scripts(p):
    return script(p).map(lambda sc: bounded(sc, p))


# ---- guard against names that are aliases in the resolved snippet table
_snip_cache = {}


def snippet_keys(syntax='html'):
    from emmet.config import Config
    if syntax not in _snip_cache:
        _snip_cache[syntax] = set(Config({'syntax': syntax, 'snippets': dict(NEUTRALISE)}).snippets.keys()) - set(NEUTRALISE)
    return _snip_cache[syntax]


def names_in(script):
    for it in script:
        if isinstance(it, str):
            continue
        if 'g' in it:
            yield from names_in(it['g'])
        elif it.get('n'):
            yield M.ser_value(it['n'])
            if isinstance(it['n'][0], str):
                yield it['n'][0]


def uses_snippet_key(script, syntax='html'):
    keys = snippet_keys(syntax)
    return any(n in keys for n in names_in(script))
