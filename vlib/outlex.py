"""
G2 — lexer for markup *we caused to be generated* (names, attribute values and texts come from known alphabets).
Not an HTML parser. Tokens: ('tag', name, attrs, selfclosed, start, end) | ('close', name, start, end) | ('comment', text, start, end)
| ('decl', text, start, end) | ('text', text, start, end). A lexing failure raises LexError (harness error, never a verdict).
"""
import re


class LexError(Exception):
    pass


_attr = r'''(?:\s+[^\s=<>/"'{}]+(?:=(?:"[^"]*"|'[^']*'|\{(?:[^{}]|\{[^{}]*\})*\}|[^\s"'<>{}]+))?)*'''
_tok = re.compile(r'''
    (?P<comment><!--.*?-->) |
    (?P<decl><![^>]*>|<\?.*?\?>) |
    (?P<close></(?P<cname>[\w:.\-]+)\s*>) |
    (?P<tag><(?P<name>[\w:.\-]+)(?P<attrs>''' + _attr + r''')\s*(?P<self>/)?>)
''', re.X | re.S)


def lex(s):
    out = []
    pos = 0
    for m in _tok.finditer(s):
        if m.start() > pos:
            out.append(('text', s[pos:m.start()], pos, m.start()))
        if m.group('comment') is not None:
            out.append(('comment', m.group('comment'), m.start(), m.end()))
        elif m.group('decl') is not None:
            out.append(('decl', m.group('decl'), m.start(), m.end()))
        elif m.group('close') is not None:
            out.append(('close', m.group('cname'), m.start(), m.end()))
        else:
            out.append(('tag', m.group('name'), m.group('attrs'), bool(m.group('self')), m.start(), m.end()))
        pos = m.end()
    if pos < len(s):
        out.append(('text', s[pos:], pos, len(s)))
    return out


_nl = re.compile(r'\r\n|\r|\n')


def norm_text(t):
    "text chunk → list of trimmed non-empty lines (indentation of continuation lines is formatting)"
    return [l.strip() for l in _nl.split(t) if l.strip()]


def normalise(tokens, drop_comments=True):
    """token stream with inter-tag white space normalised: tags keep (name, attrs), self-closing marker dropped (style-dependent),
    text chunks become lists of trimmed lines, adjacent text chunks merge, empty ones vanish"""
    out = []
    for t in tokens:
        k = t[0]
        if k == 'tag':
            out.append(('tag', t[1], re.sub(r'\s+', ' ', t[2]).strip()))
        elif k == 'close':
            out.append(('close', t[1]))
        elif k == 'comment':
            if not drop_comments:
                out.append(('comment', ' '.join(t[1].split())))
        elif k == 'decl':
            out.append(('decl', ' '.join(t[1].split())))
        else:
            # white space between adjacent text nodes is inter-node white space too: compare text with all white space removed
            txt = re.sub(r'\s+', '', t[1])
            if txt:
                if out and out[-1][0] == 'text':
                    out[-1] = ('text', out[-1][1] + txt)
                else:
                    out.append(('text', txt))
    return out


def tree(tokens, void=()):
    """nested [(name, attrs, children)] from a token stream; elements in `void` or self-closed have no close tag.
    raises LexError when tags do not nest"""
    root = []
    stack = [root]
    names = []
    for t in tokens:
        if t[0] == 'tag':
            node = (t[1], t[2], [])
            stack[-1].append(node)
            if not t[3] and t[1] not in void:
                stack.append(node[2])
                names.append(t[1])
        elif t[0] == 'close':
            if not names or names[-1] != t[1]:
                raise LexError('close tag </%s> does not match open %r' % (t[1], names[-1:] or None))
            names.pop()
            stack.pop()
    if names:
        raise LexError('unclosed %r' % names)
    return root
